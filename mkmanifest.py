#!/usr/bin/env python3
"""Regenerate MANIFEST.json from the table below (one entry per property whose check exists)."""
import json
import subprocess
from pathlib import Path

V = Path("/verif")
TECH = "explicit TLA+ specification checked with TLC; "

P = {
 "C01": ("TLC enumerates bounded universes of expressions (MC_Expr), of token strings (MC_Tokens) and of structural models (MC_Struct), checks the parser/renderer/evaluator and pipeline-refines-meaning invariants on each, and the generated behaviours are replayed through the real loader + NumPy generator and compared by name with the specification's exact values; emitted code of the repository's models is trace-validated (def-before-use, topological order)",
         "bounded expression depth / literal lexicon / model size; mpmath for transcendental leaves; float comparison within 1e-9",
         TECH + "spec-to-code replay of TLC-generated cases + trace validation of emitted code", "6 C01"),
 "C02": ("the same TLC-generated corpora (expressions, rate templates, structural models) replayed through the C generator, compiled with gcc in its default mode and called through ctypes; C statement skeletons trace-validated",
         "gcc/libm trusted; compile failures are violations; bounded corpora", TECH + "spec-to-code replay through gcc + trace validation of emitted C", "6 C02"),
 "C03": ("the same TLC-generated corpora replayed through the JAX generator (un-jitted in bulk, jitted on a sample) with output lengths checked against the specification's counts; JAX statement skeletons trace-validated (rule lengths-returned)",
         "jax trusted; jitted path sampled", TECH + "spec-to-code replay through jax + trace validation of emitted code", "6 C03"),
 "C04": ("TLC checks index bijectivity, output lengths and monitor/rhs refinement on every structural model; replay compares every value by name through the module's own index functions for numpy/jax/C, checks initial values, keyword overrides and all argument orders; TraceEmit validates unpack/store slots of every emitted function of the repository's models against the index maps",
         "argument orders sampled per model (6 of 6 rhs, 6 of 24 scheme)", TECH + "replay + trace validation of emitted code against index maps", "6 C04"),
 "C05": ("TLC checks Exec(explicit_euler) = states + dt*Den on structural models and rate templates (dt in {1/8, 0, -1/4, 4}); replay compares the generated function by name and checks that inputs are not modified",
         "bounded models", TECH + "spec-to-code replay", "6 C05"),
 "C06": ("the specification's own symbolic differentiator gives g, decides the guard |g| > delta exactly (rational deltas, boundary inputs) and the step; TLC checks the operational scheme against it on 2256 rate templates x 3 deltas; the real generated function is compared on a 72-point grid per template",
         "default delta 1e-8 idealised as g # 0 on the rational grid; residual slopes dropped", TECH + "independent differentiator in TLA+, spec-to-code replay", "6 C06"),
 "C07": ("TLC checks hybrid = GRL on stiff states, Euler elsewhere for every stiff subset (incl. foreign names) of structural models; replay uses batches of 12 states with random stiff subsets per generated module",
         "stiff subsets sampled in the replay, exhaustive in the specification", TECH + "spec-to-code replay", "6 C07"),
 "C12": ("TLC checks on every structural model that removal of unused variables changes neither results nor layout and never reads a removed name; replay compares with/without removal by name; TraceEmit checks def-before-use on every emitted function with remove_unused on the repository's models",
         "bounded models; three backends in the trace leg, numpy in the replay", TECH + "replay + trace validation (use-before-def)", "6 C12"),
 "C08": ("WellFormed (written from the property) decides acceptance; TLC applies 19 fault kinds at every site of sampled structural models (about 10^5 faulted texts) and checks that the staged loader of the specification rejects exactly the ill-formed ones; a sample of the faulted texts is loaded and generated (numpy + C) in the real library: an ill-formed text that yields code is a violation",
         "one fault per text; base models with 1-2 intermediates", TECH + "fault enumeration in TLA+, spec-to-code replay", "6 C08"),
 "C09": ("TLC shows the layout is a function of the text for every structural model and - on the free-schedule variant of the specification - produces the models on which set-iteration order would change the layout; those witnesses, a structural sample and the repository's models are generated in fresh processes under different PYTHONHASHSEED values and must be byte-identical; hook traces give the order in which dependency sets reach the sorter and, when it varies, MC_Sched.tla decides whether a layout-changing order exists; call histories generated from Session.tla are replayed in one process",
         "hash seeds sampled (6 quick / 32 thorough); histories of length <= 3", TECH + "schedule exploration in the specification, cross-process replay, hook traces", "6 C09"),
 "C10": ("TLC applies block / entry / line permutations to sampled structural models and checks model and layout equality on the specification; both texts are loaded in the real library and compared (ODE equality, bytes of numpy / C output)",
         "one permutation step per text (swaps, reversal, rotation generate the group)", TECH + "spec-to-code replay", "6 C10"),
}


def main():
    hook = subprocess.run(["git", "-C", "/repo", "log", "--format=%h", "--grep=verification hooks"], capture_output=True, text=True).stdout.split()
    props = [json.loads(l) for l in (V / "properties.jsonl").read_text().splitlines() if l.strip()]
    checks, na = [], []
    for p in props:
        pid = p["id"]
        mod = V / "harness" / "props" / f"{pid.lower()}.py"
        if pid in P and mod.exists():
            text, note, tech, ref = P[pid]
            checks.append({
                "property_id": pid,
                "quick_cmd": f"./check {pid} quick",
                "thorough_cmd": f"./check {pid} thorough",
                "evidence_file": f"/verif/evidence/{pid}.json",
                "replay_cmd_template": f"./check {pid} --replay {{path}}",
                "engine": "tlc",
                "level_claimed": {"category": "model_checking", "text": text, "design_ref": f"DESIGN.md section {ref}"},
                "level_note": "trusted: TLC 1.8.0, the reference semantics of spec/OdeExpr.tla + spec/Pipeline.tla, mpmath, numpy/jax/gcc; " + note,
                "technique": tech,
            })
        else:
            na.append({"property_id": pid, "reason": "check under construction in this session (specification and harness not bound yet); see DESIGN.md section 6"})
    m = {
        "version": 1,
        "setup_cmd": "cd /verif && ./setup.sh",
        "hooks": {
            "guard": "GOTRANX_VERIF",
            "enable": "GOTRANX_VERIF=1 GOTRANX_VERIF_TRACE=<ndjson file> (Python package, nothing to build: the checks import /repo/src directly and set both variables themselves)",
            "baseline_off_cmd": "cd /repo && env -u GOTRANX_VERIF -u GOTRANX_VERIF_TRACE /venv/bin/python -m pytest -ra -q -p no:cacheprovider --timeout=900 --continue-on-collection-errors",
            "source_commits": hook,
            "add_only": True,
        },
        "engines": [{"name": "tlc", "path": "/verif/spec", "serves_properties": [c["property_id"] for c in checks],
                     "kind_free_text": "explicit TLA+ specification (spec/*.tla) checked with TLC 1.8.0; TLC-generated behaviours replayed into the real library (harness/); executions of the real generator recorded through GOTRANX_VERIF hooks and validated against the trace specifications TraceEmit.tla / TraceSort.tla"}],
        "checks": checks,
        "not_applicable": na,
        "notes": "Every check: exit 0 held / exit 1 VIOLATION line / exit 2 machinery failure. known_findings.jsonl lists repaired (fixed) and recorded (known) defects. VERIF_SEED seeds sampling; VERIF_TIER is honoured.",
    }
    (V / "MANIFEST.json").write_text(json.dumps(m, indent=1))
    print("checks:", [c["property_id"] for c in checks], "not_applicable:", [n["property_id"] for n in na])


if __name__ == "__main__":
    main()
