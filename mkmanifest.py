#!/usr/bin/env python3
"""Regenerate MANIFEST.json from the table below (one entry per property whose check exists)."""
import json
import subprocess
from pathlib import Path

V = Path("/verif")
TECH = "explicit TLA+ specification checked with TLC; "

P = {
 "C01": ("TLC enumerates bounded universes of expressions (MC_Expr), of token strings (MC_Tokens) and of structural models (MC_Struct), checks the parser/renderer/evaluator and pipeline-refines-meaning invariants on each, and the generated behaviours are replayed through the real loader + NumPy generator and compared by name with the specification's exact values; emitted code of the repository's models is trace-validated (def-before-use, topological order)",
         "bounded expression depth / literal lexicon / model size; mpmath for transcendental leaves; float comparison within 1e-9",
         TECH + "spec-to-code replay of TLC-generated cases + trace validation of emitted code", "6 C01"),
 "C02": ("the same TLC-generated corpora (expressions, rate templates, structural models) replayed through the C generator, compiled with gcc in its default mode and called through ctypes; C statement skeletons trace-validated",
         "gcc/libm trusted; compile failures are violations; bounded corpora", TECH + "spec-to-code replay through gcc + trace validation of emitted C", "6 C02"),
 "C03": ("the same TLC-generated corpora replayed through the JAX generator (un-jitted in bulk, jitted on a sample) with output lengths checked against the specification's counts; JAX statement skeletons trace-validated (rule lengths-returned)",
         "jax trusted; jitted path sampled", TECH + "spec-to-code replay through jax + trace validation of emitted code", "6 C03"),
 "C04": ("TLC checks index bijectivity, output lengths and monitor/rhs refinement on every structural model; replay compares every value by name through the module's own index functions for numpy/jax/C, checks initial values, keyword overrides and all argument orders; TraceEmit validates unpack/store slots of every emitted function of the repository's models against the index maps",
         "argument orders sampled per model (6 of 6 rhs, 6 of 24 scheme)", TECH + "replay + trace validation of emitted code against index maps", "6 C04"),
 "C05": ("TLC checks Exec(explicit_euler) = states + dt*Den on structural models and rate templates (dt in {1/8, 0, -1/4, 4}); replay compares the generated function by name and checks that inputs are not modified (numpy, C, and jitted JAX called with JAX arrays); one generator is asked for the step under every argument order",
         "bounded models", TECH + "spec-to-code replay", "6 C05"),
 "C06": ("the specification's own symbolic differentiator gives g, decides the guard |g| > delta exactly (rational deltas, boundary inputs) and the step; TLC checks the operational scheme against it on 2256 rate templates x 3 deltas; the real generated function is compared on a 72-point grid per template; TraceEmit checks on the emitted generalized Rush-Larsen code of the repository's models that every exponential update sits behind a strict guard on the linearisation alone with exactly the delta passed (rule scheme-guard)",
         "default delta 1e-8 idealised as g # 0 on the rational grid; residual slopes dropped", TECH + "independent differentiator in TLA+, spec-to-code replay", "6 C06"),
 "C07": ("TLC checks hybrid = GRL on stiff states, Euler elsewhere for every stiff subset (incl. foreign names) of structural models; replay uses batches of 12 states with random stiff subsets per generated module, each list padded with more foreign names than the model has states (a parameter, the time, rate names, a repeated state); the schemes of one model object are asked for in varying order",
         "stiff subsets sampled in the replay, exhaustive in the specification", TECH + "spec-to-code replay", "6 C07"),
 "C12": ("TLC checks on every structural model that removal of unused variables changes neither results nor layout and never reads a removed name; replay compares with/without removal by name; TraceEmit checks def-before-use on every emitted function with remove_unused on the repository's models; split sub-models (missing variables) are replayed with removal too",
         "bounded models; three backends in the trace leg, numpy in the replay", TECH + "replay + trace validation (use-before-def)", "6 C12"),
 "C08": ("WellFormed (written from the property) decides acceptance; TLC applies 25 fault kinds at every site of sampled structural models (about 10^5 faulted texts) and checks that the staged loader of the specification rejects exactly the ill-formed ones; a sample of the faulted texts is loaded and generated (numpy + C) in the real library: an ill-formed text that yields code is a violation; arbitrary token strings at file level (OdeFile.tla: the statement grammar as a recursive-descent parser; MC_File.tla: every sequence of up to 3-4 statements and every single-token mutation of complete models) are given to the real loader, which may accept only what the specification's model of the string finds well formed",
         "one fault per text; base models with 1-2 intermediates", TECH + "fault enumeration in TLA+, spec-to-code replay", "6 C08"),
 "C09": ("TLC shows the layout is a function of the text for every structural model and - on the free-schedule variant of the specification - produces the models on which set-iteration order would change the layout; those witnesses, a structural sample and the repository's models are generated in fresh processes under different PYTHONHASHSEED values and must be byte-identical (each process takes the texts in its own order); hook traces give the order in which dependency sets reach the sorter and, when it varies, MC_Sched.tla decides whether a layout-changing order exists; call histories generated from Session.tla are replayed in one process",
         "hash seeds sampled (6 quick / 32 thorough); replayed histories of length <= 3 (history independence of get_scheme is also PROVED for every length: spec/proofs/SessionProof.tla, TLAPS, recorded in the evidence); every load of every check is preceded by a primer load in the same process", TECH + "schedule exploration in the specification, cross-process replay, hook traces, TLAPS proof of the session invariant", "6 C09"),
 "C10": ("TLC applies block / entry / line permutations (also across comment lines, also inside one headed component) to sampled structural models and checks model and layout equality on the specification; both texts are loaded in the real library and compared (ODE equality, bytes of numpy / C output)",
         "one permutation step per text (swaps, reversal, rotation generate the group)", TECH + "spec-to-code replay", "6 C10"),
 "C11": ("every construct of the expression corpus and every structural model (components, units, descriptions) goes through save -> load -> generate -> evaluate and is compared with the specification's values by name; declared atoms (names, kinds, defaults, units, descriptions, components) of the reloaded model are compared with the declaration; Myokit-imported models are evaluated before saving and after reload",
         "the specification's share is the expected observation and the enumeration (Save is the identity on the abstract model); component layouts incl. a headed component followed by a header-less one; loadable file-level strings of MC_File (atoms in several components, two-name headers, assignments before declarations)", TECH + "spec-to-code replay through save/load", "6 C11"),
 "C13": ("TLC checks on every two-component structural model that both halves of a split have exactly the missing variables they use but do not define, partition the states, and - executed with the other half's values - reproduce the full model (rhs, monitor, Euler, missing_values); the real to_ode() / model - C halves are generated for numpy, jax and C and compared by name; emitted code of the repository's split example is trace-validated",
         "two components; missing values fed from the full model's meaning", TECH + "spec-to-code replay + trace validation", "6 C13"),
 "C14": ("batch semantics = map of the scalar semantics: every generated function is called once with (n, N) arrays whose columns are the specification's input points (per-column parameters and time) for the expression corpus, the rate templates of all schemes and structural models (also with the generator's shape option); column j is compared with the specification's value for point j",
         "N = number of spec input points (4..15 columns)", TECH + "vectorised spec-to-code replay", "6 C14"),
 "C15": ("MyokitScope.tla generates scoped Myokit models (nested variables, clashing local names, names of the sympy namespace) with their meaning over paths; each is rendered as .mmt, cross-checked with Myokit's own evaluate_derivatives (a disagreement discards the case), imported, saved, reloaded and evaluated, and converted back to Myokit; the repository's .mmt / CellML files are compared with Myokit's derivatives",
         "Myokit trusted as second opinion; 2 components, 2 nesting levels", TECH + "spec-to-code replay with Myokit as cross-check", "6 C15"),
 "C16": ("a catalogue of removable singularities composed by sum, product and scaling, with the reference meaning (limit at the singular point, original value elsewhere) evaluated by TLC; remove_singularities() of the real library is evaluated on and off every singular point; non-removable and singularity-free expressions must stay untouched",
         "catalogue of 7 functions x 5 arguments; the doubled expression for >= 2 singularities is a recorded known finding (pinned by a test)", TECH + "spec-to-code replay with known-findings file", "6 C16"),
 "C17": ("the file-level grammar OdeFile.tla (a newline is white space, a comment is white space wherever no statement can end, a header scopes what follows) is checked by TLC on every statement sequence and single-token mutation of MC_File.tla (File_CommentsInert, File_ScopeIsHeader) and each string is given to the real loader written on one line, with one token per line and without its comments: same verdict, same components, same numbers; decorations (comment lines at 24 placements with 38 adversarial strings, blank lines, indentation, tabs, CRLF, continuation, unit annotations) of sampled structural models; TLC checks that stripping the decoration recovers the text; each decorated text is loaded in a child process (hang = violation) and compared with the plain model: components, layout, numerics",
         "token alphabet of 16, statements from a menu of 14; for the decorations of structural models the specification's share is the enumeration and the expected observation", TECH + "spec-to-code replay in child processes", "6 C17"),
 "C18": ("Cli.tla models one invocation (flags, configuration file, model validity) as ParseArgs/ReadConfig/Validate/Load/Generate/Write; TLC checks write-only-after-success (action property), exit status and the override rule on all 298 368 invocations; a stratified sample is run through the real typer application and the written bytes are compared with the API called with the effective options; cellml2ode and python -m gotranx subprocesses",
         "automatic pyproject discovery is not judged (black's project-root rule); formatter availability is a constant of the model", TECH + "spec-to-code replay through typer", "6 C18"),
 "C19": ("MC_Ident executes the emitted statements in one flat namespace that contains the template's own locals: without the reserved-name check TLC reports the capturing identifiers, with it C19_NoCapture holds; 85 identifiers x 3 roles x 3 backends are replayed: refused by the loader, or results equal to the renamed model; emitted code of the repository's models is trace-validated (rule redefinition)",
         "identifier universe of 85 names", TECH + "flat-namespace execution model, spec-to-code replay, trace validation", "6 C19"),
 "C20": ("MC_Depth: dependency chains of every depth up to 45, diamonds, conditionals, alias chains, fan-in, reversed and time-dependent chains (13 shapes); rhs_matrix rows of structural models (unused intermediates, components) against the specification by row; the reference expands every intermediate and differentiates with the specification's own differentiator; sympytools.states_matrix / rhs_matrix / jacobi_matrix are evaluated with exact substitution and compared entry by entry, state order against the generated code",
         "exponentially growing shapes (diamond, conditional) capped at depth 12 / 11", TECH + "independent differentiator, spec-to-code replay", "6 C20"),
}


def main():
    hook = subprocess.run(["git", "-C", "/repo", "log", "--format=%h", "--grep=verification hooks"], capture_output=True, text=True).stdout.split()
    props = [json.loads(l) for l in (V / "properties.jsonl").read_text().splitlines() if l.strip()]
    checks, na = [], []
    for p in props:
        pid = p["id"]
        mod = V / "harness" / "props" / f"{pid.lower()}.py"
        if pid in P and mod.exists():
            text, note, tech, ref = P[pid]
            checks.append({
                "property_id": pid,
                "quick_cmd": f"./check {pid} quick",
                "thorough_cmd": f"./check {pid} thorough",
                "evidence_file": f"/verif/evidence/{pid}.json",
                "replay_cmd_template": f"./check {pid} --replay {{path}}",
                "engine": "tlc",
                "level_claimed": {"category": "model_checking", "text": text, "design_ref": f"DESIGN.md section {ref.split()[0]} (row {ref.split()[1]})"},
                "level_note": "trusted: TLC 1.8.0, the reference semantics of spec/OdeExpr.tla + spec/Pipeline.tla, mpmath, numpy/jax/gcc; " + note,
                "technique": tech,
            })
        else:
            na.append({"property_id": pid, "reason": "check under construction in this session (specification and harness not bound yet); see DESIGN.md section 6"})
    m = {
        "version": 1,
        "setup_cmd": "cd /verif && ./setup.sh",
        "hooks": {
            "guard": "GOTRANX_VERIF",
            "enable": "GOTRANX_VERIF=1 GOTRANX_VERIF_TRACE=<ndjson file> (Python package, nothing to build: the checks import /repo/src directly and set both variables themselves)",
            "baseline_off_cmd": "cd /repo && env -u GOTRANX_VERIF -u GOTRANX_VERIF_TRACE /venv/bin/python -m pytest -ra -q -p no:cacheprovider --timeout=900 --continue-on-collection-errors",
            "source_commits": hook,
            "add_only": True,
        },
        "engines": [{"name": "tlc", "path": "/verif/spec", "serves_properties": [c["property_id"] for c in checks],
                     "kind_free_text": "explicit TLA+ specification (spec/*.tla) checked with TLC 1.8.0; TLC-generated behaviours replayed into the real library (harness/); executions of the real generator recorded through GOTRANX_VERIF hooks and validated against the trace specifications TraceEmit.tla / TraceSort.tla"}],
        "checks": checks,
        "not_applicable": na,
        "notes": "Every check: exit 0 held / exit 1 VIOLATION line / exit 2 machinery failure. known_findings.jsonl lists repaired (fixed) and recorded (known) defects. VERIF_SEED seeds sampling; VERIF_TIER is honoured.",
    }
    (V / "MANIFEST.json").write_text(json.dumps(m, indent=1))
    print("checks:", [c["property_id"] for c in checks], "not_applicable:", [n["property_id"] for n in na])


if __name__ == "__main__":
    main()
