#!/usr/bin/env python3
"""Validate MANIFEST.json and evidence files against the schemas (run with python3-vt, which has jsonschema)."""
import json, sys, glob
import jsonschema
m = json.load(open('/verif/MANIFEST.json')); jsonschema.validate(m, json.load(open('/root/.vp/MANIFEST.schema.json')))
props = [json.loads(l)['id'] for l in open('/verif/properties.jsonl')]
claimed = [c['property_id'] for c in m['checks']]; na = [n['property_id'] for n in m.get('not_applicable', [])]
missing = [p for p in props if p not in claimed and p not in na]
print('manifest ok; claimed', len(claimed), 'not_applicable', len(na), 'unlisted', missing)
S = json.load(open('/root/.vp/EVIDENCE.schema.json'))
for f in sorted(glob.glob('/verif/evidence/*.json')):
    try:
        jsonschema.validate(json.load(open(f)), S); print('ok', f)
    except Exception as e:
        print('INVALID', f, str(e)[:300]); sys.exit(1)
