#!/bin/sh
# run every check of the manifest at the given tier; print one line per check
# usage: run_all.sh [tier] [Cnn ...]   (default: every check)
tier="${1:-quick}"
[ $# -gt 0 ] && shift
cd "$(dirname "$0")" || exit 2
for p in ${@:-C01 C02 C03 C04 C05 C06 C07 C08 C09 C10 C11 C12 C13 C14 C15 C16 C17 C18 C19 C20}; do
  s=$(date +%s)
  ./check $p $tier > /tmp/run_all.$p.$tier${RUN_ALL_TAG:+.$RUN_ALL_TAG}.log 2>&1
  rc=$?
  e=$(date +%s)
  echo "$p rc=$rc $((e-s))s $(grep -c '^VIOLATION' /tmp/run_all.$p.$tier${RUN_ALL_TAG:+.$RUN_ALL_TAG}.log) violations $(grep -c '^KNOWN-FINDING' /tmp/run_all.$p.$tier${RUN_ALL_TAG:+.$RUN_ALL_TAG}.log) known"
done
