#!/bin/sh
# Run the repository's suite with the hook guard OFF and compare with BASELINE.json's stable_pass list.
# usage: baseline_check.sh [repo-dir]   (prints the stable tests that no longer pass; exit 1 if any)
REPO="${1:-/repo}"
OUT="${TMPDIR:-/tmp}/baseline.$$.xml"
cd "$REPO" || exit 2
env -u GOTRANX_VERIF -u GOTRANX_VERIF_TRACE -u GOTRANX_VERIF_SCHED PYTHONPATH="$REPO/src" /venv/bin/python -m pytest -q -p no:cacheprovider --timeout=900 --continue-on-collection-errors -n 8 --junitxml="$OUT" > "$OUT.log" 2>&1
/venv/bin/python - "$OUT" <<'PY'
import json, sys, xml.etree.ElementTree as ET
base = set(json.load(open('/root/.vp/BASELINE.json'))['stable_pass'])
passed = set()
for tc in ET.parse(sys.argv[1]).getroot().iter('testcase'):
    ok = not any(ch.tag in ('failure', 'error', 'skipped') for ch in tc)
    name = f"{tc.get('classname')}::{tc.get('name')}"
    if ok: passed.add(name)
missing = sorted(base - passed)
print(f"baseline stable tests: {len(base)}  passing now: {len(base & passed)}  missing: {len(missing)}")
for m in missing: print("  MISSING", m)
sys.exit(1 if missing else 0)
PY
rc=$?
rm -f "$OUT" "$OUT.log"
exit $rc
