#!/bin/sh
# reeval.sh <seed-id> <Cnn> [<Cnn> ...]: run the named quick checks against an already confirmed seeded change
# (seeded/<id>/patch.diff applied to a scratch worktree; /repo itself is never touched)
HERE="$(cd "$(dirname "$0")" && pwd)"
name="$1"; shift
patch="$HERE/seeded/$name/patch.diff"
# reeval.sh -p <patch-file> <name> <Cnn> ...: any patch (used for behaviour-preserving changes, which must NOT be reported)
if [ "$name" = "-p" ]; then patch="$1"; name="$2"; shift 2; fi
WT=/tmp/seed/re_$name
OUT=/tmp/seed/reout_$name
rm -rf "$OUT"; mkdir -p "$OUT"
git -C /repo worktree remove --force "$WT" 2>/dev/null
git -C /repo worktree add -q --detach "$WT" HEAD || exit 2
if ! git -C "$WT" apply --3way "$patch" 2>"$OUT/apply.log"; then echo "PATCH DOES NOT APPLY"; cat "$OUT/apply.log"; git -C /repo worktree remove --force "$WT"; exit 2; fi
for p in "$@"; do
  s=$(date +%s)
  (cd "$HERE" && VERIF_REPO="$WT" VERIF_OUT="$OUT" timeout 3000 ./check "$p" quick > "$OUT/check_$p.log" 2>&1); rc=$?
  e=$(date +%s)
  echo "seed $name check $p: exit=$rc ($((e-s))s) $(grep -c '^VIOLATION' $OUT/check_$p.log) violation signature(s)"
  grep -A1 '^VIOLATION' "$OUT/check_$p.log" | grep signature | head -3 | cut -c1-200
done
git -C /repo worktree remove --force "$WT"
