"""MC_Tokens: every token string up to a length bound; accept/reject and value against the real loader."""
from __future__ import annotations

import concurrent.futures as cf

from . import tlc, exprcorpus


def generate(maxlen: int, alpha: int, workers: int = 16, timeout: int = 1200):
    cfg = tlc.make_cfg(
        constants={"NumLex": "<- NumLexDef", "BigToks": "{}", "MaxLen": maxlen, "Alpha": alpha},
        invariants=["RoundTrip", "MinimalNotLonger", "Emit", "EmitHeader"],
    )
    res = tlc.run_tlc("MC_Tokens", cfg, workers=workers, timeout=timeout,
                      constants_for_summary={"MaxLen": maxlen, "Alpha": alpha})
    header = None
    acc, rej = [], []
    for r in res.records:
        if r.get("header"):
            header = r
        elif r["ok"]:
            acc.append(r)
        else:
            rej.append(r)
    res.records = []
    return res, header, acc, rej


def _reject_worker(texts):
    """Returns the texts that the real code turns into generated code (should be none)."""
    from . import gx
    from gotranx.parser import Parser
    import lark

    parser = Parser(parser="lalr", propagate_positions=True)
    accepted = []
    lark_ok = 0
    for t in texts:
        src = f"states(x=1, y=1)\nparameters(a=1)\ni = {t}\ndx_dt = 0\ndy_dt = 0\n"
        try:
            parser.parse(src)
        except lark.exceptions.LarkError:
            continue
        except Exception:
            continue
        lark_ok += 1
        try:
            ode = gx.load(src)
            gx.numpy_code(ode)
        except Exception:  # noqa: BLE001
            continue
        accepted.append(t)
    return accepted, lark_ok


def check_rejects(rej, nproc=16):
    texts = [" ".join(r["toks"]) for r in rej]
    chunks = [texts[i::nproc * 4] for i in range(nproc * 4)]
    wrongly = []
    lark_ok = 0
    with cf.ProcessPoolExecutor(max_workers=nproc) as ex:
        for a, n in ex.map(_reject_worker, chunks):
            wrongly.extend(a)
            lark_ok += n
    return wrongly, lark_ok


def check_accepts(acc, envs, nproc=16, backend="numpy"):
    cases = [{"tmin": r["toks"], "tfull": r["toks"], "bool": r["bool"], "vals": r["vals"], "lvl": 0} for r in acc]
    # the corpus model declares a parameter `a` and states x, y: the alphabets only use x and y
    envs2 = [dict(e, a={"k": "q", "n": 1, "d": 1, "ex": True}) for e in envs]
    return exprcorpus.replay(cases, envs2, backend, nproc, styles=("tmin", "tmin-compact"))
