"""Replay of a TLC-generated model case in the real library (leg L2).

A case is the JSON the specification prints at a completed model:
  blocks : [{k, comp, entries: [{name, toks}]}]           the model text, as tokens
  cases  : [{input: {t, dt, states{}, params{}}, expect: {rhs{}, monitor{}, explicit_euler{}, ...}}]
The harness renders the text (tokens joined by blanks, block syntax), loads it, generates code for
the requested backend and options, calls the generated functions with the inputs placed through
the module's OWN index functions, and compares every returned value BY NAME with the value the
specification computed.  Each mismatch is tagged with the observable it concerns.
"""
from __future__ import annotations

import ctypes
import math
import shutil
from fractions import Fraction

from . import resid

SCHEMES = ["explicit_euler", "generalized_rush_larsen", "hybrid_rush_larsen"]


# Names are arbitrary (C04: "for every generated module", C19): a generated model may be replayed under a consistent
# renaming of its identifiers.  Values are compared by name through the module's own index functions, so nothing
# the specification computed depends on the spelling.
RENAMINGS = [
    {"u": "_u", "k": "k_1", "c": "C_", "x": "V", "y": "m_gate", "p": "g_Na", "q": "_q", "U": "tau_U"},
    {"u": "__tmp", "k": "K", "c": "c0", "x": "X_", "y": "_y", "p": "P1", "q": "Q_q", "U": "u_"},
]


def rename_rec(rec, mapping):
    m = dict(mapping)
    for s in [n for n in mapping if f"d{n}_dt" in {e["name"] for b in rec["blocks"] for e in b["entries"]}]:
        m[f"d{s}_dt"] = f"d{mapping[s]}_dt"
    rn = lambda n: m.get(n, n)  # noqa: E731
    keyed = lambda d: {rn(k): v for k, v in d.items()}  # noqa: E731
    out = dict(rec)
    out["blocks"] = [dict(b, entries=[dict(e, name=rn(e["name"]), toks=[rn(t) for t in e["toks"]]) for e in b["entries"]]) for b in rec["blocks"]]
    if "names" in rec:
        out["names"] = sorted(rn(n) for n in rec["names"])
    if "defaults" in rec:
        out["defaults"] = keyed(rec["defaults"])
    if "unused" in rec:
        out["unused"] = [rn(n) for n in rec["unused"]]
    out["cases"] = [{"input": dict(c["input"], states=keyed(c["input"]["states"]), params=keyed(c["input"]["params"])),
                     "expect": {k: keyed(v) for k, v in c["expect"].items()}} for c in rec["cases"]]
    out["stiff"] = [rn("x")]
    out["renamed"] = True
    return out


def scheme_order(schemes, key: str):
    """The schemes in an order derived from `key`: the order in which one code generator is asked for several
    schemes of one model object must not matter (state kept on the model between two schemes would show)."""
    import itertools
    import zlib
    perms = list(itertools.permutations(list(schemes)))
    return list(perms[zlib.crc32(key.encode()) % len(perms)]) if perms else []


def qf(v) -> float:
    return float(Fraction(v["n"], v["d"]))


def _decl(e) -> str:
    val = " ".join(e["toks"])
    unit, desc = e.get("unit") or "", e.get("desc") or ""
    if not unit and not desc:
        return f'{e["name"]} = {val}'
    extra = (f', unit="{unit}"' if unit else "") + (f', description="{desc}"' if desc else "")
    return f'{e["name"]} = ScalarParam({val}{extra})'


def render_text(blocks, eol: str = "\n", sep_comments: bool = False) -> str:
    """sep_comments: a comment line after every line of an expressions block (position-bound, not entry-bound)."""
    out = []
    for b in blocks:
        comp = b["comp"]
        if b["k"] in ("states", "parameters"):
            head = f'{b["k"]}("{comp}", ' if comp else f'{b["k"]}('
            body = ", ".join(_decl(e) for e in b["entries"])
            out.append(head + body + ")")
        else:
            if comp:
                out.append(f'expressions("{comp}")')
            for e in b["entries"]:
                line = f'{e["name"]} = {" ".join(e["toks"])}'
                if e.get("unit"):
                    line += f' # {e["unit"]}'
                out.append(line)
                if sep_comments:
                    out.append("# ---")
    return eol.join(out) + eol


# --------------------------------------------------------------------------------------------
# uniform access to a generated module

class NumpyMod:
    backend = "numpy"

    def __init__(self, ode, schemes=None, **kw):
        from . import gx

        self.code = gx.numpy_code(ode, schemes, **kw)
        self.ns = gx.exec_module(self.code)

    def index(self, kind, name):
        return self.ns[f"{kind}_index"](name)

    def has(self, fn):
        return fn in self.ns

    def init_states(self, **kw):
        import numpy as np
        return np.array(self.ns["init_state_values"](**kw), dtype=float)

    def init_params(self, **kw):
        import numpy as np
        return np.array(self.ns["init_parameter_values"](**kw), dtype=float)

    def call(self, fn, t, states, params, dt=None, missing=None):
        import numpy as np
        from . import gx

        s = np.array(states, dtype=float)
        p = np.array(params, dtype=float)
        s0, p0 = s.copy(), p.copy()
        extra = [] if missing is None else [np.array(missing, dtype=float)]
        with gx.quiet_np():
            if dt is None:
                out = self.ns[fn](t, s, p, *extra)
            else:
                out = self.ns[fn](s, t, dt, p, *extra)
        self.inputs_unchanged = bool(np.array_equal(s, s0) and np.array_equal(p, p0))
        return [float(x) for x in np.asarray(out).ravel()], tuple(np.asarray(out).shape)

    def close(self):
        pass


class JaxMod(NumpyMod):
    backend = "jax"

    def __init__(self, ode, schemes=None, jit=False, **kw):
        from . import gx

        gx.jax_ready()
        self.jit = jit
        self.code = gx.jax_code(ode, schemes, **kw)
        self.ns = gx.exec_module(self.code)

    def call(self, fn, t, states, params, dt=None, missing=None):
        import numpy as np
        import jax

        s0 = np.array(states, dtype=float)
        p0 = np.array(params, dtype=float)
        s, p = s0, p0
        if self.jit:
            # jitted calls receive JAX arrays, as in a time loop; they must still be alive and unchanged afterwards
            import jax.numpy as jnp
            s, p = jnp.asarray(s0), jnp.asarray(p0)
        extra = [] if missing is None else [np.array(missing, dtype=float)]

        def go():
            if dt is None:
                return self.ns[fn](t, s, p, *extra)
            return self.ns[fn](s, t, dt, p, *extra)

        if self.jit:
            out = go()
        else:
            with jax.disable_jit():
                out = go()
        try:
            self.inputs_unchanged = bool(np.array_equal(np.asarray(s), s0) and np.array_equal(np.asarray(p), p0))
        except RuntimeError:      # "Array has been deleted": the call consumed its argument
            self.inputs_unchanged = False
        out = np.asarray(out)
        return [float(x) for x in out.ravel()], tuple(out.shape)


class CMod:
    backend = "c"

    def __init__(self, ode, schemes=None, workdir=None, **kw):
        from . import gx

        self.n_missing_values = len(kw.get("missing_values") or {})
        self.code = gx.c_code(ode, schemes, **kw)
        self.lib, self.dir = gx.compile_c(self.code, workdir)
        self.n_states = ctypes.c_int.in_dll(self.lib, "NUM_STATES").value
        self.n_params = ctypes.c_int.in_dll(self.lib, "NUM_PARAMS").value
        self.n_monitored = ctypes.c_int.in_dll(self.lib, "NUM_MONITORED").value
        for k in ("state", "parameter", "monitor"):
            getattr(self.lib, f"{k}_index").restype = ctypes.c_int

    def index(self, kind, name):
        i = getattr(self.lib, f"{kind}_index")(name.encode())
        if i < 0:
            raise KeyError(name)
        return i

    def has(self, fn):
        return hasattr(self.lib, fn)

    def init_states(self):
        from . import gx
        arr = gx.c_array(self.n_states)
        self.lib.init_state_values(arr)
        return [arr[i] for i in range(self.n_states)]

    def init_params(self):
        from . import gx
        arr = gx.c_array(self.n_params)
        self.lib.init_parameter_values(arr)
        return [arr[i] for i in range(self.n_params)]

    def call(self, fn, t, states, params, dt=None, missing=None):
        from . import gx

        s = gx.c_array(len(states), states)
        p = gx.c_array(len(params), params)
        n = self.n_monitored if fn == "monitor_values" else (self.n_missing_values if fn == "missing_values" else self.n_states)
        v = gx.c_array(n, [math.nan] * n)
        f = getattr(self.lib, fn)
        f.restype = None
        extra = [] if missing is None else [gx.c_array(len(missing), missing)]
        if dt is None:
            f(ctypes.c_double(t), s, p, v, *extra)
        else:
            f(s, ctypes.c_double(t), ctypes.c_double(dt), p, v, *extra)
        self.inputs_unchanged = all(s[i] == float(states[i]) for i in range(len(states))) and \
            all(p[i] == float(params[i]) for i in range(len(params)))
        return [v[i] for i in range(n)], (n,)

    def close(self):
        import _ctypes

        try:
            _ctypes.dlclose(self.lib._handle)
        except Exception:
            pass
        shutil.rmtree(self.dir, ignore_errors=True)


def make_mod(backend, ode, schemes, workdir=None, **kw):
    if backend == "numpy":
        return NumpyMod(ode, schemes, **kw)
    if backend == "jax":
        return JaxMod(ode, schemes, jit=False, **kw)
    if backend == "jax-jit":
        return JaxMod(ode, schemes, jit=True, **kw)
    if backend == "c":
        return CMod(ode, schemes, workdir=workdir, **kw)
    raise ValueError(backend)


# --------------------------------------------------------------------------------------------

def _cmp(bad, stats, tag, name, got, v, ctx):
    """Compare one number with one specification value."""
    if v["k"] == "u":
        stats["undefined"] += 1
        return
    try:
        want, mag = resid.value(v)
    except resid.Undefined:
        stats["undefined"] += 1
        return
    stats["compared"] += 1
    if not resid.close(got, want, mag):
        bad.append({"tag": tag, "name": name, "got": got, "want": float(want), "want_exact": resid.fmt(v), **ctx})


def check_model_case(rec, backend="numpy", remove_unused=(False, True), workdir=None, stiff=("x",), schemes=SCHEMES,
                     _ode=None):
    """Returns (stats, bad).  Tags: load, lengths, index, rhs, monitor, explicit_euler,
    generalized_rush_larsen, hybrid_rush_larsen, inputs_modified, remove_unused."""
    from . import gx

    stats = {"compared": 0, "undefined": 0, "calls": 0}
    bad = []
    text = render_text(rec["blocks"])
    ctx0 = {"text": text, "backend": backend}
    try:
        ode = _ode if _ode is not None else gx.load(text)
    except Exception as ex:  # noqa: BLE001
        bad.append({"tag": "load", "exception": type(ex).__name__, "message": str(ex)[:300], **ctx0})
        return stats, bad
    snames = [e["name"] for b in rec["blocks"] if b["k"] == "states" for e in b["entries"]]
    pnames = [e["name"] for b in rec["blocks"] if b["k"] == "parameters" for e in b["entries"]]
    anames = [e["name"] for b in rec["blocks"] if b["k"] == "expressions" for e in b["entries"]]
    delta = float(rec.get("delta", "1e-8"))
    stiff = tuple(rec.get("stiff", stiff))
    results = {}
    for ru in remove_unused:
        ctx = {**ctx0, "remove_unused": ru}
        try:
            mod = make_mod(backend, ode, scheme_order(schemes, text + str(ru)), workdir=workdir, remove_unused=ru, delta=delta,
                           stiff_states=list(stiff) + ["p", "no_such_state", "t", "dt"] + [f"d{n}_dt" for n in snames] + list(stiff))
        except Exception as ex:  # noqa: BLE001
            bad.append({"tag": "generate", "exception": type(ex).__name__, "message": str(ex)[:300], **ctx})
            continue
        try:
            # index maps: bijective onto 0..n-1, unknown names refused
            for kind, names in (("state", snames), ("parameter", pnames), ("monitor", anames)):
                try:
                    idx = [mod.index(kind, n) for n in names]
                except Exception as ex:  # noqa: BLE001
                    bad.append({"tag": "index", "kind": kind, "exception": type(ex).__name__, "message": str(ex)[:200], **ctx})
                    raise
                if sorted(idx) != list(range(len(names))):
                    bad.append({"tag": "index", "kind": kind, "indices": dict(zip(names, idx)), **ctx})
                try:
                    mod.index(kind, "no_such_name_")
                    bad.append({"tag": "index", "kind": kind, "message": "unknown name accepted", **ctx})
                except Exception:  # noqa: BLE001
                    pass
            for ci, c in enumerate(rec["cases"]):
                inp, exp = c["input"], c["expect"]
                s = [0.0] * len(snames)
                p = [0.0] * len(pnames)
                for n in snames:
                    s[mod.index("state", n)] = qf(inp["states"][n])
                for n in pnames:
                    p[mod.index("parameter", n)] = qf(inp["params"][n])
                t, dt = qf(inp["t"]), qf(inp["dt"])
                cctx = {**ctx, "input": {k: (resid.fmt(v) if "k" in v else {a: resid.fmt(b) for a, b in v.items()})
                                        for k, v in inp.items()}}
                calls = [("rhs", "rhs", None, "state", snames, len(snames)),
                         ("monitor", "monitor_values", None, "monitor", anames, len(anames))]
                for sc in schemes:
                    key = "hybrid_x" if sc == "hybrid_rush_larsen" else sc
                    if key in exp:
                        calls.append((key, sc, dt, "state", snames, len(snames)))
                for key, fn, dtv, kind, names, nexp in calls:
                    if key not in exp:
                        continue
                    try:
                        vals, shape = mod.call(fn, t, s, p, dtv)
                    except Exception as ex:  # noqa: BLE001
                        bad.append({"tag": fn, "exception": type(ex).__name__, "message": str(ex)[:300], **cctx})
                        continue
                    stats["calls"] += 1
                    if len(vals) != nexp:
                        bad.append({"tag": "lengths", "fn": fn, "got_len": len(vals), "want_len": nexp, **cctx})
                        continue
                    if not mod.inputs_unchanged:
                        bad.append({"tag": "inputs_modified", "fn": fn, **cctx})
                    tag = "hybrid_rush_larsen" if key == "hybrid_x" else fn.replace("_values", "")
                    for n in names:
                        _cmp(bad, stats, tag, n, vals[mod.index(kind, n)], exp[key][n], {**cctx, "fn": fn})
                    results[(ru, ci, fn)] = {n: vals[mod.index(kind, n)] for n in names}
        except Exception as ex:  # noqa: BLE001
            if not bad:
                bad.append({"tag": "harness", "exception": type(ex).__name__, "message": str(ex)[:300], **ctx})
        finally:
            mod.close()
    # C12: with and without removal, same results by name (bitwise up to rounding of identical code)
    if len(remove_unused) == 2:
        for (ru, ci, fn), vals in results.items():
            if ru is False and (True, ci, fn) in results and fn != "monitor_values":
                other = results[(True, ci, fn)]
                for n, v in vals.items():
                    w = other[n]
                    if not (v == w or (math.isnan(v) and math.isnan(w)) or abs(v - w) <= 1e-12 * max(1.0, abs(v))):
                        bad.append({"tag": "remove_unused", "fn": fn, "name": n, "without": v, "with": w, **ctx0})
    return stats, bad


def _case_worker(args):
    rec, backend, kw = args
    try:
        st, bad = check_model_case(rec, backend, **kw)
        for b in bad[:3]:
            b["rec"] = rec          # lets `./check Cnn --replay <file>` execute the case again
        return st, bad
    except Exception as ex:  # noqa: BLE001
        import traceback

        return {"compared": 0, "undefined": 0, "calls": 0}, [
            {"tag": "harness", "exception": type(ex).__name__, "message": traceback.format_exc()[-600:],
             "text": render_text(rec["blocks"]), "backend": backend}]


def replay_model_cases(recs, backend="numpy", nproc=16, **kw):
    import concurrent.futures as cf

    total = {"models": len(recs), "compared": 0, "undefined": 0, "calls": 0}
    bad = []
    with cf.ProcessPoolExecutor(max_workers=nproc) as ex:
        for st, b in ex.map(_case_worker, [(r, backend, kw) for r in recs], chunksize=4):
            for k in ("compared", "undefined", "calls"):
                total[k] += st[k]
            bad.extend(b)
    return total, bad


def check_model_case_batch(rec, workdir=None):
    """C14 on a structural model: rhs / monitor_values / every scheme called once with all input points
    as columns (per-column parameters and time); column j against the specification's point j."""
    from . import gx
    import numpy as np

    stats = {"compared": 0, "undefined": 0, "calls": 0}
    bad = []
    text = render_text(rec["blocks"])
    ctx = {"text": text, "backend": "numpy-batch"}
    ode = gx.load(text)
    snames = [e["name"] for b in rec["blocks"] if b["k"] == "states" for e in b["entries"]]
    pnames = [e["name"] for b in rec["blocks"] if b["k"] == "parameters" for e in b["entries"]]
    anames = [e["name"] for b in rec["blocks"] if b["k"] == "expressions" for e in b["entries"]]
    mod = NumpyMod(ode, SCHEMES, delta=float(rec.get("delta", "1e-8")), stiff_states=["x"])
    N = len(rec["cases"])
    S = np.zeros((len(snames), N))
    P = np.zeros((len(pnames), N))
    T = np.zeros(N)
    for j, c in enumerate(rec["cases"]):
        for n in snames:
            S[mod.index("state", n), j] = qf(c["input"]["states"][n])
        for n in pnames:
            P[mod.index("parameter", n), j] = qf(c["input"]["params"][n])
        T[j] = qf(c["input"]["t"])
    dts = {qf(c["input"]["dt"]) for c in rec["cases"]}
    calls = [("rhs", "rhs", "state", snames), ("monitor", "monitor_values", "monitor", anames)]
    for sc in SCHEMES:
        calls.append(("hybrid_x" if sc == "hybrid_rush_larsen" else sc, sc, "state", snames))
    for key, fn, kind, names in calls:
        for dt in (sorted(dts) if fn in SCHEMES else [None]):
            try:
                with gx.quiet_np():
                    out = mod.ns[fn](T, S.copy(), P.copy()) if dt is None else mod.ns[fn](S.copy(), T, dt, P.copy())
                out = np.asarray(out)
            except Exception as ex:  # noqa: BLE001
                bad.append({"tag": "batch-call", "fn": fn, "exception": type(ex).__name__, "message": str(ex)[:200], **ctx})
                continue
            stats["calls"] += 1
            if out.shape != (len(names), N):
                bad.append({"tag": "batch-shape", "fn": fn, "got": list(out.shape), "want": [len(names), N], **ctx})
                continue
            for j, c in enumerate(rec["cases"]):
                if dt is not None and qf(c["input"]["dt"]) != dt:
                    continue
                for n in names:
                    _cmp(bad, stats, "batch-" + fn, n, float(out[mod.index(kind, n), j]), c["expect"][key][n],
                         {**ctx, "fn": fn, "column": j})
    # the documented shape option of the generator (it sizes the array monitor_values fills): "multiple" must take
    # the same (n, N) call, "single" the columns one at a time
    from gotranx.codegen.base import Shape
    for shape in (Shape.multiple, Shape.single):
        try:
            m2 = NumpyMod(ode, [], shape=shape)
            with gx.quiet_np():
                if shape == Shape.multiple:
                    out = np.asarray(m2.ns["monitor_values"](T, S.copy(), P.copy()))
                else:
                    out = np.stack([np.asarray(m2.ns["monitor_values"](T[j], S[:, j].copy(), P[:, j].copy())) for j in range(N)], axis=1)
        except Exception as ex:  # noqa: BLE001
            bad.append({"tag": "batch-call", "fn": f"monitor_values[shape={shape.value}]", "exception": type(ex).__name__, "message": str(ex)[:200], **ctx})
            continue
        stats["calls"] += 1
        if out.shape != (len(anames), N):
            bad.append({"tag": "batch-shape", "fn": f"monitor_values[shape={shape.value}]", "got": list(out.shape), "want": [len(anames), N], **ctx})
            continue
        for j, c in enumerate(rec["cases"]):
            for n in anames:
                _cmp(bad, stats, "batch-monitor_values", n, float(out[m2.index("monitor", n), j]), c["expect"]["monitor"][n],
                     {**ctx, "fn": f"monitor_values[shape={shape.value}]", "column": j})
    return stats, bad


def _batch_worker(rec):
    try:
        return check_model_case_batch(rec)
    except Exception as ex:  # noqa: BLE001
        import traceback
        return {"compared": 0, "undefined": 0, "calls": 0}, [
            {"tag": "harness", "exception": type(ex).__name__, "message": traceback.format_exc()[-500:],
             "text": render_text(rec["blocks"]), "backend": "numpy-batch"}]


def replay_model_cases_batch(recs, nproc=16):
    import concurrent.futures as cf
    total = {"models": len(recs), "compared": 0, "undefined": 0, "calls": 0}
    bad = []
    with cf.ProcessPoolExecutor(max_workers=nproc) as ex:
        for st, b in ex.map(_batch_worker, recs, chunksize=4):
            for k in ("compared", "undefined", "calls"):
                total[k] += st[k]
            bad.extend(b)
    return total, bad


EULER_ALIASES = ["explicit_euler", "euler", "forward_euler", "forward_explicit_euler"]
GRL_ALIASES = ["generalized_rush_larsen", "forward_generalized_rush_larsen"]


def check_aliases(rec):
    """C05: the explicit Euler function under every accepted name (and the GRL aliases) computes the same step."""
    from . import gx
    import warnings
    import numpy as np
    from gotranx.codegen.python import PythonCodeGenerator, Format
    from gotranx.schemes import get_scheme

    stats = {"compared": 0, "undefined": 0, "calls": 0}
    bad = []
    text = render_text(rec["blocks"])
    ode = gx.load(text)
    cg = PythonCodeGenerator(ode, format=Format.none)
    ns0 = gx.exec_module(gx.numpy_code(ode))
    snames = [e["name"] for b in rec["blocks"] if b["k"] == "states" for e in b["entries"]]
    pnames = [e["name"] for b in rec["blocks"] if b["k"] == "parameters" for e in b["entries"]]
    for alias, key in [(a, "explicit_euler") for a in EULER_ALIASES] + [(a, "generalized_rush_larsen") for a in GRL_ALIASES]:
        with warnings.catch_warnings():
            warnings.simplefilter("ignore")
            kw = {"delta": float(rec.get("delta", "1e-8"))} if "rush" in alias else {}
            code = cg.scheme(get_scheme(alias), **kw)
        ns = {}
        exec(cg.imports() + "\n" + code, ns)
        if alias not in ns:
            bad.append({"tag": "alias-name", "alias": alias, "text": text, "defined": [k for k in ns if not k.startswith("_")][:5]})
            continue
        for c in rec["cases"]:
            inp = c["input"]
            s = np.zeros(len(snames))
            p = np.zeros(len(pnames))
            for n in snames:
                s[ns0["state_index"](n)] = qf(inp["states"][n])
            for n in pnames:
                p[ns0["parameter_index"](n)] = qf(inp["params"][n])
            with gx.quiet_np():
                vals = ns[alias](s, qf(inp["t"]), qf(inp["dt"]), p)
            stats["calls"] += 1
            for n in snames:
                _cmp(bad, stats, "alias-" + key, n, float(vals[ns0["state_index"](n)]), c["expect"][key][n],
                     {"text": text, "alias": alias, "fn": alias})
    return stats, bad
