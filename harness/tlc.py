"""Run TLC on a module of /verif/spec and parse what it printed.

Every invocation runs under a timeout, with its metadir in scratch, from a scratch copy of the
spec directory (TLC writes next to the module).  The result object carries
  records     - the JSON objects printed by the spec (PrintT(ToJson(..)) lines)
  generated / distinct / depth  - TLC's state counts
  violations  - [{"invariant": name, "trace": text}] for invariant / property violations
  errors      - anything else TLC reported as an error (machinery failure: exit 2 in the checks)
  coverage    - per action counts when run with coverage
"""
from __future__ import annotations

import json
import os
import re
import shutil
import subprocess
import tempfile
import time
from dataclasses import dataclass, field
from pathlib import Path

VERIF = Path(__file__).resolve().parent.parent
SPEC = VERIF / "spec"
JAR = "/opt/veriftools/tla/tla2tools.jar:/opt/veriftools/tla/CommunityModules-deps.jar"


def scratch_root() -> Path:
    root = Path(os.environ.get("VERIF_SCRATCH") or tempfile.gettempdir()) / f"gotranx-verif-{os.getpid()}"
    root.mkdir(parents=True, exist_ok=True)
    return root


def cleanup_scratch() -> None:
    shutil.rmtree(scratch_root(), ignore_errors=True)


@dataclass
class TLCResult:
    module: str
    cfg: str
    wall_s: float = 0.0
    records: list = field(default_factory=list)
    generated: int = 0
    distinct: int = 0
    depth: int = 0
    violations: list = field(default_factory=list)
    errors: list = field(default_factory=list)
    coverage: dict = field(default_factory=dict)
    timed_out: bool = False
    complete: bool = False
    raw_tail: str = ""
    mode: str = "bfs"
    constants: dict = field(default_factory=dict)

    def summary(self) -> dict:
        return {
            "module": self.module,
            "mode": self.mode,
            "constants": self.constants,
            "states_generated": self.generated,
            "distinct_states": self.distinct,
            "depth": self.depth,
            "complete": self.complete,
            "records": len(self.records),
            "violations": [v["invariant"] for v in self.violations],
            "wall_s": round(self.wall_s, 2),
            "action_counts": self.coverage,
        }


def _fmt_const(v) -> str:
    if isinstance(v, bool):
        return "TRUE" if v else "FALSE"
    if isinstance(v, int):
        return str(v)
    if isinstance(v, str):
        # strings starting with "<-" are substitutions
        return v
    raise TypeError(v)


def make_cfg(
    spec: str = "Spec",
    constants: dict | None = None,
    invariants: list[str] | None = None,
    properties: list[str] | None = None,
    constraint: str | None = None,
    view: str | None = None,
    postcondition: str | None = None,
    action_constraint: str | None = None,
) -> str:
    lines = [f"SPECIFICATION {spec}"]
    if constants:
        lines.append("CONSTANTS")
        for k, v in constants.items():
            v = _fmt_const(v)
            if v.startswith("<-"):
                lines.append(f"  {k} {v}")
            else:
                lines.append(f"  {k} = {v}")
    for inv in invariants or []:
        lines.append(f"INVARIANT {inv}")
    for p in properties or []:
        lines.append(f"PROPERTY {p}")
    if constraint:
        lines.append(f"CONSTRAINT {constraint}")
    if action_constraint:
        lines.append(f"ACTION_CONSTRAINT {action_constraint}")
    if view:
        lines.append(f"VIEW {view}")
    if postcondition:
        lines.append(f"POSTCONDITION {postcondition}")
    lines.append("CHECK_DEADLOCK FALSE")
    return "\n".join(lines) + "\n"


_STATES_RE = re.compile(r"(\d+) states generated, (\d+) distinct states found")
_SIM_RE = re.compile(r"The number of states generated: (\d+)")
_DEPTH_RE = re.compile(r"depth of the complete state graph search is (\d+)")
_COV_RE = re.compile(r"^<(\w+) line \d+, col \d+ to line \d+, col \d+ of module (\w+)>: (\d+):(\d+)")


def run_tlc(
    module: str,
    cfg_text: str,
    *,
    workers: int | str = 16,
    timeout: int = 600,
    simulate: dict | None = None,
    coverage: bool = False,
    extra_files: dict[str, str] | None = None,
    env: dict | None = None,
    heap: str = "8g",
    stack: str = "64m",
    depth_first: bool = False,
    keep_dir: bool = False,
    constants_for_summary: dict | None = None,
    on_record=None,
) -> TLCResult:
    """Run TLC.  `simulate` = {"num": N, "depth": D, "seed": S} switches to simulation mode."""
    work = Path(tempfile.mkdtemp(prefix="tlc-", dir=scratch_root()))
    for f in SPEC.glob("*.tla"):
        shutil.copy(f, work / f.name)
    for name, text in (extra_files or {}).items():
        (work / name).write_text(text)
    (work / "run.cfg").write_text(cfg_text)
    cmd = [
        "java",
        "-XX:+UseParallelGC",
        f"-Xmx{heap}",
        f"-Xss{stack}",
    ]
    if depth_first:
        cmd.append("-Dtlc2.tool.queue.IStateQueue=StateDeque")
    cmd += ["-cp", JAR, "tlc2.TLC", "-metadir", str(work / "meta"), "-noGenerateSpecTE", "-config", "run.cfg"]
    cmd += ["-workers", str(workers)]
    if coverage:
        cmd += ["-coverage", "1"]
    mode = "bfs"
    if simulate:
        mode = "simulate"
        cmd += ["-simulate", f"num={simulate['num']}", "-depth", str(simulate.get("depth", 30))]
        if "seed" in simulate:
            cmd += ["-seed", str(simulate["seed"])]
    cmd.append(module + ".tla")
    res = TLCResult(module=module, cfg=cfg_text, mode=mode, constants=constants_for_summary or {})
    t0 = time.time()
    envv = dict(os.environ)
    envv.pop("JAVA_TOOL_OPTIONS", None)
    if env:
        envv.update(env)
    tail: list[str] = []
    try:
        proc = subprocess.Popen(
            cmd, cwd=work, stdout=subprocess.PIPE, stderr=subprocess.STDOUT, text=True, env=envv, errors="replace"
        )
    except Exception as ex:  # pragma: no cover
        res.errors.append(f"cannot start TLC: {ex}")
        return res
    import threading

    timer = threading.Timer(timeout, lambda: (setattr(res, "timed_out", True), proc.kill()))
    timer.start()
    cur_violation = None
    in_error_block = None
    try:
        assert proc.stdout is not None
        for line in proc.stdout:
            if line.startswith('"{') or line.startswith('"['):
                try:
                    rec = json.loads(json.loads(line))
                except Exception:
                    res.errors.append("unparsable record: " + line[:200])
                    continue
                if on_record is not None:
                    on_record(rec)
                else:
                    res.records.append(rec)
                continue
            s = line.rstrip("\n")
            tail.append(s)
            if len(tail) > 400:
                del tail[:200]
            m = _STATES_RE.search(s)
            if m:
                res.generated, res.distinct = int(m.group(1)), int(m.group(2))
            m = _SIM_RE.search(s)
            if m:
                res.generated = res.distinct = int(m.group(1))
            m = _DEPTH_RE.search(s)
            if m:
                res.depth = int(m.group(1))
            if "Model checking completed. No error has been found." in s:
                res.complete = True
            if coverage:
                m = _COV_RE.match(s)
                if m:
                    res.coverage[m.group(1)] = res.coverage.get(m.group(1), 0) + int(m.group(4))
            if s.startswith("Error:"):
                m = re.match(r"Error: (?:Invariant|Action property|Temporal property) (\w+) is violated", s)
                if m:
                    cur_violation = {"invariant": m.group(1), "trace": ""}
                    res.violations.append(cur_violation)
                    in_error_block = None
                elif "The behavior up to this point is" in s or "The following behavior constitutes" in s:
                    pass
                elif "Postcondition" in s or "postcondition" in s:
                    cur_violation = {"invariant": "POSTCONDITION", "trace": s}
                    res.violations.append(cur_violation)
                else:
                    in_error_block = [s]
                    res.errors.append(in_error_block)
                    cur_violation = None
                continue
            if cur_violation is not None:
                if len(cur_violation["trace"]) < 20000:
                    cur_violation["trace"] += s + "\n"
            elif in_error_block is not None and len(in_error_block) < 40:
                in_error_block.append(s)
        proc.wait()
    finally:
        timer.cancel()
    res.wall_s = time.time() - t0
    res.errors = ["\n".join(e) if isinstance(e, list) else e for e in res.errors]
    # TLC reports evaluation errors also as "Error:" blocks; simulation mode never prints the completion line
    if simulate and not res.errors and not res.violations and not res.timed_out:
        res.complete = True
    if res.timed_out and simulate:
        # a simulation stopped by its time limit is a normal, partial run
        res.complete = False
    if proc.returncode not in (0, None) and not res.violations and not res.errors and not res.timed_out:
        res.errors.append(f"TLC exit status {proc.returncode}")
    res.raw_tail = "\n".join(tail[-60:])
    if not keep_dir:
        shutil.rmtree(work, ignore_errors=True)
    return res


def sany(module: str) -> tuple[bool, str]:
    out = subprocess.run(
        ["java", "-cp", JAR, "tla2sany.SANY", module + ".tla"], cwd=SPEC, capture_output=True, text=True
    )
    txt = out.stdout + out.stderr
    ok = out.returncode == 0 and "Semantic errors" not in txt and "***Parse Error***" not in txt and "Fatal errors" not in txt
    return ok, txt
