"""C13: a component split yields complementary sub-models that reproduce the full model."""
from __future__ import annotations

import concurrent.futures as cf

from . import modelcase, resid
from .modelcase import qf, _cmp


def _check_half(rec, half, e, req, backend, ru, workdir, ctx, stats, bad):
    """One generated module of one half (with or without removal of unused variables)."""
    try:
        mod = modelcase.make_mod(backend, half, ["explicit_euler"], workdir=workdir, missing_values=req, remove_unused=ru)
    except Exception as ex:  # noqa: BLE001
        bad.append({"tag": "generate", "exception": type(ex).__name__, "message": str(ex)[:300], **ctx})
        return
    try:
        snames = [s.name for s in half.states]
        pnames = [p.name for p in half.parameters]
        mnames = dict(half.missing_variables)
        if mnames and hasattr(mod, "ns"):
            mi = mod.ns.get("missing")
            if mi != mnames:
                bad.append({"tag": "missing-index", "module": mi, "ode": mnames, **ctx})
        for c in rec["cases"]:
            inp, den = c["input"], c["den"]
            s = [0.0] * len(snames)
            p = [0.0] * len(pnames)
            for n in snames:
                s[mod.index("state", n)] = qf(inp["states"][n])
            for n in pnames:
                p[mod.index("parameter", n)] = qf(inp["params"][n])
            missing = None
            if mnames:
                missing = [0.0] * len(mnames)
                ok = True
                for n, i in mnames.items():
                    v = den[n]
                    try:
                        missing[i] = float(resid.value(v)[0])
                    except Exception:  # noqa: BLE001
                        ok = False
                if not ok:
                    stats["undefined"] += 1
                    continue
            t, dt = qf(inp["t"]), qf(inp["dt"])
            cctx = {**ctx, "t": t}
            for fn, dtv, kind, names, key in (("rhs", None, "state", snames, "d"), ("monitor_values", None, "monitor", sorted(e["assigns"]), "m"),
                                              ("explicit_euler", dt, "state", snames, "e")):
                try:
                    vals, _ = mod.call(fn, t, s, p, dtv, missing=missing)
                except Exception as ex:  # noqa: BLE001
                    bad.append({"tag": fn, "exception": type(ex).__name__, "message": str(ex)[:300], **cctx})
                    continue
                stats["calls"] += 1
                if len(vals) != len(names):
                    bad.append({"tag": "lengths", "fn": fn, "got_len": len(vals), "want_len": len(names), **cctx})
                    continue
                for n in names:
                    want = den[f"d{n}_dt"] if key == "d" else (den[n] if key == "m" else c["euler"][n])
                    _cmp(bad, stats, fn, n, vals[mod.index(kind, n)], want, {**cctx, "fn": fn})
            if req:
                try:
                    vals, _ = mod.call("missing_values", t, s, p, None, missing=missing)
                except Exception as ex:  # noqa: BLE001
                    bad.append({"tag": "missing_values", "exception": type(ex).__name__, "message": str(ex)[:300], **cctx})
                    continue
                stats["calls"] += 1
                if len(vals) != len(req):
                    bad.append({"tag": "lengths", "fn": "missing_values", "got_len": len(vals), "want_len": len(req), **cctx})
                    continue
                for n, i in req.items():
                    _cmp(bad, stats, "missing_values", n, vals[i], den[n], {**cctx, "fn": "missing_values"})
    finally:
        mod.close()


def check_split_case(rec, backend="numpy", workdir=None):
    from . import gx

    stats = {"compared": 0, "undefined": 0, "calls": 0, "halves": 0}
    bad = []
    text = modelcase.render_text(rec["blocks"])
    ctx0 = {"text": text, "backend": backend}
    ode = gx.load(text)
    for cname, exp in rec["halves"].items():
        comp = ode.get_component(cname)
        try:
            own = comp.to_ode()
            rest = ode - comp
        except Exception as ex:  # noqa: BLE001
            bad.append({"tag": "split", "component": cname, "exception": type(ex).__name__, "message": str(ex)[:200], **ctx0})
            continue
        for label, half, other, e in (("to_ode", own, rest, exp["own"]), ("minus", rest, own, exp["rest"])):
            ctx = {**ctx0, "component": cname, "half": label}
            stats["halves"] += 1
            if set(half.missing_variables) != set(e["missing"]):
                bad.append({"tag": "missing-set", "got": sorted(half.missing_variables), "want": sorted(e["missing"]), **ctx})
                continue
            if sorted(half.missing_variables.values()) != list(range(len(half.missing_variables))):
                bad.append({"tag": "missing-index", "got": dict(half.missing_variables), **ctx})
            if {s.name for s in half.states} != set(e["states"]):
                bad.append({"tag": "states-partition", "got": sorted(s.name for s in half.states), "want": sorted(e["states"]), **ctx})
            req = dict(other.missing_variables) or None
            for ru in (False, True):
                _check_half(rec, half, e, req, backend, ru, workdir, {**ctx, "remove_unused": ru}, stats, bad)
    return stats, bad


def _worker(args):
    rec, backend = args
    try:
        return check_split_case(rec, backend)
    except Exception as ex:  # noqa: BLE001
        import traceback
        return {"compared": 0, "undefined": 0, "calls": 0, "halves": 0}, [
            {"tag": "harness", "exception": type(ex).__name__, "message": traceback.format_exc()[-600:],
             "text": modelcase.render_text(rec["blocks"]), "backend": backend}]


def replay(recs, backend="numpy", nproc=16):
    total = {"models": len(recs), "compared": 0, "undefined": 0, "calls": 0, "halves": 0}
    bad = []
    with cf.ProcessPoolExecutor(max_workers=nproc) as ex:
        for st, b in ex.map(_worker, [(r, backend) for r in recs], chunksize=2):
            for k in ("compared", "undefined", "calls", "halves"):
                total[k] += st[k]
            bad.extend(b)
    return total, bad
