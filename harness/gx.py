"""Drivers for the real gotranx library (the tree under $VERIF_REPO, default /repo)."""
from __future__ import annotations

import ctypes
import logging
import os
import subprocess
import sys
import tempfile
import warnings
from pathlib import Path

REPO = Path(os.environ.get("VERIF_REPO", "/repo"))
sys.path.insert(0, str(REPO / "src"))
warnings.filterwarnings("ignore")

import numpy as np  # noqa: E402
import structlog  # noqa: E402

import gotranx  # noqa: E402

# gotranx configures structlog at import time: silence it afterwards
structlog.configure(wrapper_class=structlog.make_filtering_bound_logger(logging.CRITICAL))
from gotranx.load import ode_from_string  # noqa: E402
from gotranx.cli import gotran2py, gotran2c  # noqa: E402
from gotranx.codegen.python import Format as PyFormat  # noqa: E402
from gotranx.codegen.c import Format as CFormat  # noqa: E402
from gotranx.schemes import Scheme  # noqa: E402

assert Path(gotranx.__file__).resolve().is_relative_to(REPO.resolve()), (gotranx.__file__, REPO)


def schemes_of(names):
    return [Scheme(n) for n in names] if names else None


# Histories (Session.tla / SessionApi.tla: the observation of a call is a function of the call alone).  Every load
# the harness makes is the SECOND call of a two-call history: first a primer text is loaded in the same process.
# The primers leave behind whatever a loader could wrongly keep: a text that ENDS inside a headed expressions block,
# one that ends in a comment, one that ends in a declaration block, one that gives the usual names other roles and
# other components.  A loader without memory gives the same model either way (and costs one tenth of a second).
PRIMERS = [
    'states("Zp", x=1)\nparameters("Zp", p=2)\nexpressions("Zp")\ndx_dt = p*x\n',
    'parameters(x=1, y=2)\nstates(p=0.5, u=1)\ndp_dt = x - p # mV\ndu_dt = y*u\n# the end',
    'states("Zq", "Zr", q=1)\nparameters("Zq", U=3)\nexpressions("Zq", "Zr")\nk = 2\n\n# about q\ndq_dt = k - q\n',
    'states("Zp", x=ScalarParam(1, unit="mV", description="primer"))\nexpressions("Zp") # header\ni = -x # pA\ndx_dt = i\nexpressions("Zs")\nc = i + 1\n',
]
_PRIME = {"on": os.environ.get("VERIF_PRIME", "1") != "0", "n": 0}


def load(text: str, name: str = "ode"):
    if _PRIME["on"]:
        _PRIME["n"] += 1
        try:
            ode_from_string(PRIMERS[_PRIME["n"] % len(PRIMERS)], name="primer")
        except Exception:  # noqa: BLE001  a primer that does not load primes nothing; the text below is what is judged
            pass
    return ode_from_string(text, name=name)


def numpy_code(ode, schemes=None, **kw) -> str:
    return gotran2py.get_code(ode, scheme=schemes_of(schemes), format=PyFormat.none, **kw)


def jax_code(ode, schemes=None, **kw) -> str:
    return gotran2py.get_code(ode, scheme=schemes_of(schemes), format=PyFormat.none, backend=gotran2py.Backend.jax, **kw)


def c_code(ode, schemes=None, **kw) -> str:
    return gotran2c.get_code(ode, scheme=schemes_of(schemes), format=CFormat.none, **kw)


def exec_module(code: str) -> dict:
    ns: dict = {}
    exec(compile(code, "<generated>", "exec"), ns)
    return ns


def gen_numpy(text_or_ode, schemes=None, **kw):
    ode = load(text_or_ode) if isinstance(text_or_ode, str) else text_or_ode
    code = numpy_code(ode, schemes, **kw)
    return ode, code, exec_module(code)


_JAX_READY = False


def jax_ready():
    global _JAX_READY
    if not _JAX_READY:
        os.environ.setdefault("JAX_PLATFORMS", "cpu")
        import jax

        jax.config.update("jax_enable_x64", True)
        _JAX_READY = True


def gen_jax(text_or_ode, schemes=None, **kw):
    jax_ready()
    ode = load(text_or_ode) if isinstance(text_or_ode, str) else text_or_ode
    code = jax_code(ode, schemes, **kw)
    return ode, code, exec_module(code)


class CompileError(Exception):
    pass


def compile_c(code: str, workdir: Path | None = None, cc: str = "gcc"):
    """Compile generated C in the compiler's default mode and load it with ctypes."""
    d = Path(tempfile.mkdtemp(prefix="c-", dir=workdir))
    src = d / "m.c"
    src.write_text(code)
    so = d / "m.so"
    p = subprocess.run([cc, "-shared", "-fPIC", "-O0", "-o", str(so), str(src), "-lm"], capture_output=True, text=True)
    if p.returncode != 0:
        raise CompileError(p.stderr[:2000])
    lib = ctypes.CDLL(str(so))
    return lib, d


def c_array(n, init=None):
    arr = (ctypes.c_double * max(n, 1))()
    if init is not None:
        for i, v in enumerate(init):
            arr[i] = float(v)
    return arr


def quiet_np():
    return np.errstate(all="ignore")
