"""Drivers for the real gotranx library (the tree under $VERIF_REPO, default /repo)."""
from __future__ import annotations

import ctypes
import logging
import os
import subprocess
import sys
import tempfile
import warnings
from pathlib import Path

REPO = Path(os.environ.get("VERIF_REPO", "/repo"))
sys.path.insert(0, str(REPO / "src"))
warnings.filterwarnings("ignore")

import numpy as np  # noqa: E402
import structlog  # noqa: E402

import gotranx  # noqa: E402

# gotranx configures structlog at import time: silence it afterwards
structlog.configure(wrapper_class=structlog.make_filtering_bound_logger(logging.CRITICAL))
from gotranx.load import ode_from_string  # noqa: E402
from gotranx.cli import gotran2py, gotran2c  # noqa: E402
from gotranx.codegen.python import Format as PyFormat  # noqa: E402
from gotranx.codegen.c import Format as CFormat  # noqa: E402
from gotranx.schemes import Scheme  # noqa: E402

assert Path(gotranx.__file__).resolve().is_relative_to(REPO.resolve()), (gotranx.__file__, REPO)


def schemes_of(names):
    return [Scheme(n) for n in names] if names else None


def load(text: str, name: str = "ode"):
    return ode_from_string(text, name=name)


def numpy_code(ode, schemes=None, **kw) -> str:
    return gotran2py.get_code(ode, scheme=schemes_of(schemes), format=PyFormat.none, **kw)


def jax_code(ode, schemes=None, **kw) -> str:
    return gotran2py.get_code(ode, scheme=schemes_of(schemes), format=PyFormat.none, backend=gotran2py.Backend.jax, **kw)


def c_code(ode, schemes=None, **kw) -> str:
    return gotran2c.get_code(ode, scheme=schemes_of(schemes), format=CFormat.none, **kw)


def exec_module(code: str) -> dict:
    ns: dict = {}
    exec(compile(code, "<generated>", "exec"), ns)
    return ns


def gen_numpy(text_or_ode, schemes=None, **kw):
    ode = load(text_or_ode) if isinstance(text_or_ode, str) else text_or_ode
    code = numpy_code(ode, schemes, **kw)
    return ode, code, exec_module(code)


_JAX_READY = False


def jax_ready():
    global _JAX_READY
    if not _JAX_READY:
        os.environ.setdefault("JAX_PLATFORMS", "cpu")
        import jax

        jax.config.update("jax_enable_x64", True)
        _JAX_READY = True


def gen_jax(text_or_ode, schemes=None, **kw):
    jax_ready()
    ode = load(text_or_ode) if isinstance(text_or_ode, str) else text_or_ode
    code = jax_code(ode, schemes, **kw)
    return ode, code, exec_module(code)


class CompileError(Exception):
    pass


def compile_c(code: str, workdir: Path | None = None, cc: str = "gcc"):
    """Compile generated C in the compiler's default mode and load it with ctypes."""
    d = Path(tempfile.mkdtemp(prefix="c-", dir=workdir))
    src = d / "m.c"
    src.write_text(code)
    so = d / "m.so"
    p = subprocess.run([cc, "-shared", "-fPIC", "-O0", "-o", str(so), str(src), "-lm"], capture_output=True, text=True)
    if p.returncode != 0:
        raise CompileError(p.stderr[:2000])
    lib = ctypes.CDLL(str(so))
    return lib, d


def c_array(n, init=None):
    arr = (ctypes.c_double * max(n, 1))()
    if init is not None:
        for i, v in enumerate(init):
            arr[i] = float(v)
    return arr


def quiet_np():
    return np.errstate(all="ignore")
