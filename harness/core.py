"""Common frame of every check: tiers, seeds, evidence, violations, known findings, exit codes.

exit 0  the property held on everything explored (known findings are printed, not failed)
exit 1  a violation that known_findings.jsonl does not list: `VIOLATION property=<id> replay=<path>`
exit 2  machinery failure (TLC / SANY / JVM / gcc error, our own timeout, vacuous run)
"""
from __future__ import annotations

import hashlib
import json
import os
import sys
import time
import traceback
from pathlib import Path

from . import tlc

VERIF = Path(__file__).resolve().parent.parent
# VERIF_OUT redirects evidence and replay files (used when a seeded change is evaluated against a scratch
# tree, so that the committed evidence always comes from /repo itself)
_OUT = Path(os.environ["VERIF_OUT"]) if os.environ.get("VERIF_OUT") else VERIF
EVIDENCE = _OUT / "evidence"
REPLAYS = _OUT / "replays"
KNOWN = VERIF / "known_findings.jsonl"

ASSUMPTIONS = [
    "TLC 1.8.0 evaluates the TLA+ specification correctly",
    "the reference semantics of spec/OdeExpr.tla and spec/Pipeline.tla (DESIGN.md appendix A) is the documented meaning of the language",
    "mpmath (50 digits) gives the value of elementary functions at rational points (residual leaves only)",
    "numpy / jax / gcc+libm / CPython execute the generated code faithfully",
]


class MachineryFailure(Exception):
    pass


def load_known():
    out = []
    if KNOWN.exists():
        for line in KNOWN.read_text().splitlines():
            line = line.strip()
            if line and not line.startswith("#"):
                out.append(json.loads(line))
    return out


class Check:
    def __init__(self, pid: str, tier: str, level: str = "model_checking"):
        self.pid = pid
        self.tier = tier if tier in ("quick", "thorough") else "quick"
        self.level = level
        self.seed = int(os.environ.get("VERIF_SEED", "0") or 0)
        self.t0 = time.time()
        self.tlc_runs: list[dict] = []
        self.states = 0
        self.transitions = 0
        self.traces = 0
        self.replayed = 0
        self.exhaustive = True
        self.samples: list = []
        self.extra: dict = {}
        self.violations: list[dict] = []
        self.known_seen: list[dict] = []
        self.failures: list[str] = []
        self.known = [k for k in load_known() if k.get("property") == pid]
        self.nproc = int(os.environ.get("VERIF_NPROC", "16"))
        self.max_signatures = 25
        self.overflow = 0

    # ------------------------------------------------------------------ TLC bookkeeping
    def add_tlc(self, res: tlc.TLCResult, *, need_complete: bool = True, l1_property: str | None = None):
        """Record a TLC run.  Invariant violations of the SPEC (L1) are violations of the property
        as modelled; TLC errors are machinery failures."""
        self.tlc_runs.append(res.summary())
        self.states += res.distinct
        self.transitions += res.generated
        if res.errors:
            self.failures.append(f"TLC error in {res.module} {res.constants}: {res.errors[0][:600]}")
        if res.timed_out and res.mode == "bfs":
            self.failures.append(f"TLC timed out in {res.module} {res.constants}")
        if need_complete and res.mode == "bfs" and not res.complete and not res.violations and not res.errors:
            self.failures.append(f"TLC did not complete in {res.module} {res.constants}: {res.raw_tail[-400:]}")
        if res.mode != "bfs" or not res.complete:
            self.exhaustive = False
        for v in res.violations:
            self.violation(
                f"{self.pid}:L1:{res.module}:{v['invariant']}",
                {"kind": "spec-invariant", "module": res.module, "constants": res.constants,
                 "invariant": v["invariant"], "trace": v["trace"][:6000]},
                what=f"specification invariant {v['invariant']} violated in {res.module}",
            )

    # ------------------------------------------------------------------ violations
    def violation(self, signature: str, detail: dict, what: str = ""):
        for k in self.known:
            if k.get("status") == "known" and k.get("signature") == signature:
                if not any(s["signature"] == signature for s in self.known_seen):
                    self.known_seen.append({"signature": signature, "what": k.get("what", what), "example": detail})
                return
        if any(v["signature"] == signature for v in self.violations):
            # keep one replay per signature, count the rest
            for v in self.violations:
                if v["signature"] == signature:
                    v["count"] += 1
            return
        if len(self.violations) >= self.max_signatures:
            self.overflow += 1
            return
        self.violations.append({"signature": signature, "what": what, "detail": detail, "count": 1})

    def sample(self, obj, cap: int = 6):
        if len(self.samples) < cap:
            self.samples.append(obj)

    def fail(self, msg: str):
        self.failures.append(msg)

    # ------------------------------------------------------------------ finish
    def finish(self) -> int:
        wall = time.time() - self.t0
        if getattr(self, "replay_mode", False):
            for v in self.violations:
                print(f"VIOLATION property={self.pid} replay={self.replay_path}")
                print(f"  signature={v['signature']} {v['what']}")
            tlc.cleanup_scratch()
            if self.failures:
                print("replay: machinery failure:", self.failures[0][:300])
                return 2
            print(f"replay: {'still violated' if self.violations else 'not reproduced on this tree'}")
            return 1 if self.violations else 0
        EVIDENCE.mkdir(exist_ok=True)
        rdir = REPLAYS / self.pid
        lines = []
        for k in self.known_seen:
            lines.append(f"KNOWN-FINDING: property={self.pid} {k['signature']} {k['what']}")
        for v in self.violations:
            rdir.mkdir(parents=True, exist_ok=True)
            h = hashlib.sha1(v["signature"].encode()).hexdigest()[:10]
            path = rdir / f"{h}.json"
            path.write_text(json.dumps({"property": self.pid, **v}, indent=1, default=str))
            lines.append(f"VIOLATION property={self.pid} replay={path}")
            lines.append(f"  signature={v['signature']} count={v['count']} {v['what']}")
        coverage = {
            "states": max(self.states, 0),
            "transitions": max(self.transitions, 0),
            "traces_validated_against_impl": self.traces + self.replayed,
            "recorded_traces_validated": self.traces,
            "spec_behaviours_replayed_into_impl": self.replayed,
            "samples": self.samples or [{"note": "no sample recorded"}],
            "exhaustive": bool(self.exhaustive),
            "tlc_runs": self.tlc_runs,
            "known_findings_seen": [k["signature"] for k in self.known_seen],
            "violation_signatures_not_written": self.overflow,
            **self.extra,
        }
        ev = {
            "property_id": self.pid,
            "tier": self.tier,
            "seed": self.seed,
            "level": self.level,
            "coverage": coverage,
            "assumptions": ASSUMPTIONS,
            "wall_s": round(wall, 2),
            "violations": len(self.violations),
        }
        if self.failures:
            ev["coverage"]["machinery_failures"] = self.failures
        (EVIDENCE / f"{self.pid}.json").write_text(json.dumps(ev, indent=1, default=str))
        for l in lines:
            print(l)
        tlc.cleanup_scratch()
        if self.failures:
            for f in self.failures:
                print(f"MACHINERY-FAILURE property={self.pid} {f}", file=sys.stderr)
            print(f"{self.pid} {self.tier}: machinery failure ({len(self.failures)})")
            return 2
        if self.violations:
            print(f"{self.pid} {self.tier}: {len(self.violations)} violation signature(s)")
            return 1
        print(f"{self.pid} {self.tier}: ok  states={self.states} replayed={self.replayed} traces={self.traces} "
              f"known={len(self.known_seen)} wall={wall:.0f}s")
        return 0


def main_wrapper(fn, pid: str):
    """fn(check: Check, argv) -> None; returns process exit code."""
    argv = sys.argv[1:]
    tier = os.environ.get("VERIF_TIER") or "quick"
    replay = None
    rest = []
    i = 0
    while i < len(argv):
        if argv[i] in ("quick", "thorough"):
            tier = argv[i]
        elif argv[i] == "--replay":
            replay = argv[i + 1]
            i += 1
        else:
            rest.append(argv[i])
        i += 1
    chk = Check(pid, tier)
    chk.replay_mode = replay is not None
    chk.replay_path = replay
    if replay is None:
        # replay files belong to the run that wrote them: a new run starts without the ones of earlier runs
        for old in (REPLAYS / pid).glob("*.json"):
            old.unlink()
    try:
        fn(chk, replay)
    except MachineryFailure as ex:
        chk.fail(str(ex))
    except Exception as ex:  # noqa: BLE001
        # An exception raised INSIDE the library under test (innermost frame in its source tree) while the harness
        # was using it on input every check handles on the unchanged tree is the library failing, not the machinery.
        tb = traceback.extract_tb(ex.__traceback__)
        repo_src = str(Path(os.environ.get("VERIF_REPO", "/repo")).resolve() / "src")
        inner = tb[-1].filename if tb else ""
        if inner and str(Path(inner).resolve()).startswith(repo_src) and not isinstance(ex, (ImportError, AttributeError)):
            where = next((f"{Path(f.filename).name}:{f.lineno}" for f in reversed(tb) if "/harness/" in f.filename), "?")
            chk.violation(f"{pid}:library-exception:{type(ex).__name__}:{where}", {"traceback": traceback.format_exc()[-1500:]},
                          f"gotranx raised {type(ex).__name__}: {str(ex)[:200]} on input the check handles on the unchanged tree "
                          f"(called from {where})")
        else:
            chk.fail("harness exception: " + traceback.format_exc()[-1500:])
    code = chk.finish()
    sys.stdout.flush()
    sys.stderr.flush()
    os._exit(code)


def replay_generic(chk: Check, path: str):
    """Re-run one recorded violation against the current tree.  Replay files of the expression corpus carry the
    case (tokens, reference values, input points), those of the model corpora the model record; they are executed
    again and the violation is reported again if it is still there.  Other kinds are printed for manual replay."""
    d = json.load(open(path))
    det = d.get("detail", {})
    print(f"replay of {d.get('signature')}")
    print(d.get("what", ""))
    if det.get("case") and det.get("envs"):
        from . import exprcorpus
        stats, bad = exprcorpus.replay([det["case"]], det["envs"], det["backend"], nproc=1, styles=(det.get("style", "tmin"),))
        print("re-executed expression case:", {k: stats[k] for k in ("points_compared", "errors", "mismatches")})
        for b in bad:
            chk.violation(d.get("signature"), b, d.get("what", ""))
        return
    if det.get("rec"):
        from . import modelcase
        ru = (det.get("remove_unused"),) if det.get("remove_unused") in (True, False) else (False, True)
        stats, bad = modelcase.check_model_case(det["rec"], det.get("backend", "numpy"), remove_unused=ru)
        print("re-executed model case:", stats, "mismatches:", len(bad))
        for b in bad:
            if b["tag"] == det.get("tag") or det.get("tag") == "remove_unused":
                chk.violation(d.get("signature"), {k: v for k, v in b.items() if k != "rec"}, d.get("what", ""))
        return
    text = det.get("text")
    if text:
        print("---- model / expression text (manual replay) ----")
        print(text)
