"""MC_Scheme corpus: rate templates in the own state; the specification gives f, g, the guard decision
and the step; the real generated schemes must return the same numbers (C05, C06, C07)."""
from __future__ import annotations

import concurrent.futures as cf
import random
import re

from . import tlc, resid
from .modelcase import qf

FAMS = [1, 2, 3, 4]
INVS = ["C06_GRL", "C07_Hybrid", "C05_Euler", "C06_ZeroDt", "C06_NoSlopeIsEuler", "WellTyped", "Emit", "EmitHeader"]
CONSTS = {"NumLex": "<- NumLexDef", "BigToks": "{}", "NameOrder": "<- NameOrderDef"}


def generate(fams, workers=16, timeout=900):
    per = max(2, workers // len(fams))

    def one(f):
        cfg = tlc.make_cfg(constants=dict(CONSTS, Fam=f), invariants=INVS)
        return tlc.run_tlc("MC_Scheme", cfg, workers=per, timeout=timeout, constants_for_summary={"Fam": f})

    with cf.ThreadPoolExecutor(len(fams)) as ex:
        results = list(ex.map(one, fams))
    header, recs = None, []
    for r in results:
        for rec in r.records:
            if rec.get("header"):
                header = rec
            else:
                rec["fam"] = r.constants["Fam"]
                recs.append(rec)
        r.records = []
    return results, header, recs


def rename(toks, j):
    return " ".join(f"s{j}" if t == "x" else t for t in toks)


def build_model(group):
    n = len(group)
    lines = ["states(y=0.5, " + ", ".join(f"s{j}=1" for j in range(n)) + ")", "parameters(a=2)"]
    lines += [f"ds{j}_dt = {rename(r['toks'], j)}" for j, r in enumerate(group)]
    lines += ["dy_dt = 1"]
    return "\n".join(lines) + "\n"


_KEY = re.compile(r"<<(\d+), (\d+), (\d+)>>")


def _run_group_batch(group, header, delta, stiff_idx, workdir, schemes=None):
    """C14: one call per (scheme, dt) with all (x, a) grid points as columns; per-column parameters and time."""
    from . import gx, modelcase
    import numpy as np

    n = len(group)
    ode = gx.load(build_model(group))
    # names that are not states "have no effect" - however many of them there are (more names than the model has
    # states), whatever they name (a parameter, a rate, the time, a state of another model), repeated or not
    stiff = [f"s{j}" for j in stiff_idx] + ["not_a_state", "a", "t", "ds0_dt", "ds1_dt"] + [f"foreign_{j}" for j in range(len(group) + 1)] \
        + [f"s{j}" for j in list(stiff_idx)[:1]]
    schemes = schemes or modelcase.SCHEMES
    mod = modelcase.NumpyMod(ode, modelcase.scheme_order(schemes, str(header) + str(delta) + str(stiff)), delta=float(delta), stiff_states=stiff)
    out = {j: {} for j in range(n)}
    keys = list(group[0]["grid"].keys())
    parsed = [tuple(map(int, _KEY.match(k).groups())) for k in keys]
    for di in sorted({p[2] for p in parsed}):
        cols = [(k, p) for k, p in zip(keys, parsed) if p[2] == di]
        K = len(cols)
        S = np.zeros((n + 1, K))
        P = np.zeros((1, K))
        for c, (k, (xi, ai, _)) in enumerate(cols):
            S[mod.index("state", "y"), c] = qf(header["y"])
            for j in range(n):
                S[mod.index("state", f"s{j}"), c] = qf(header["xs"][xi - 1])
            P[0, c] = qf(header["as"][ai - 1])
        dt = qf(header["dts"][di - 1])
        t = np.zeros(K)
        for sc in schemes:
            with gx.quiet_np():
                vals = np.asarray(mod.ns[sc](S.copy(), t, dt, P.copy()))
            if vals.shape != (n + 1, K):
                raise ValueError(f"{sc}: result shape {vals.shape}, expected {(n + 1, K)}")
            for c, (k, _) in enumerate(cols):
                for j in range(n):
                    out[j].setdefault(k, {})[sc] = float(vals[mod.index("state", f"s{j}"), c])
    return out


def _run_group(group, header, delta, stiff_idx, backend, workdir, schemes=None):
    """Returns {j: {key: {"explicit_euler": v, "generalized_rush_larsen": v, "hybrid_rush_larsen": v}}}"""
    from . import gx, modelcase

    n = len(group)
    ode = gx.load(build_model(group))
    # names that are not states "have no effect" - however many of them there are (more names than the model has
    # states), whatever they name (a parameter, a rate, the time, a state of another model), repeated or not
    stiff = [f"s{j}" for j in stiff_idx] + ["not_a_state", "a", "t", "ds0_dt", "ds1_dt"] + [f"foreign_{j}" for j in range(len(group) + 1)] \
        + [f"s{j}" for j in list(stiff_idx)[:1]]
    schemes = schemes or modelcase.SCHEMES
    mod = modelcase.make_mod(backend, ode, modelcase.scheme_order(schemes, str(header) + str(delta) + str(stiff)), workdir=workdir, delta=float(delta), stiff_states=stiff)
    out = {j: {} for j in range(n)}
    try:
        keys = list(group[0]["grid"].keys())
        for key in keys:
            xi, ai, di = map(int, _KEY.match(key).groups())
            s = [0.0] * (n + 1)
            s[mod.index("state", "y")] = qf(header["y"])
            for j in range(n):
                s[mod.index("state", f"s{j}")] = qf(header["xs"][xi - 1])
            p = [qf(header["as"][ai - 1])]
            dt = qf(header["dts"][di - 1])
            for sc in schemes:
                vals, _ = mod.call(sc, 0.0, s, p, dt)
                for j in range(n):
                    out[j].setdefault(key, {})[sc] = vals[mod.index("state", f"s{j}")]
    finally:
        mod.close()
    return out


def _worker(args):
    group, header, delta, stiff_idx, backend, workdir, schemes = args
    res = {"values": {}, "errors": []}

    def split(ix):
        if not ix:
            return
        try:
            sub = [group[i] for i in ix]
            st = [k for k, i in enumerate(ix) if i in stiff_idx]
            if backend == "numpy-batch":
                vals = _run_group_batch(sub, header, delta, st, workdir, schemes)
            else:
                vals = _run_group(sub, header, delta, st, backend, workdir, schemes)
            for k, i in enumerate(ix):
                res["values"][i] = vals[k]
        except Exception as ex:  # noqa: BLE001
            if len(ix) == 1:
                res["errors"].append((ix[0], type(ex).__name__, str(ex)[:300]))
            else:
                h = len(ix) // 2
                split(ix[:h])
                split(ix[h:])

    split(list(range(len(group))))
    return res


def replay(recs, header, backend="numpy", nproc=16, batch=12, seed=0, workdir=None, schemes=None):
    workdir = str(workdir or tlc.scratch_root())
    rnd = random.Random(seed)
    by_delta = {}
    for r in recs:
        by_delta.setdefault(str(r["delta"]), []).append(r)
    jobs = []
    for delta, lst in sorted(by_delta.items()):
        lst = sorted(lst, key=lambda r: " ".join(r["toks"]))
        rnd.shuffle(lst)
        for i in range(0, len(lst), batch):
            g = lst[i:i + batch]
            stiff_idx = set(j for j in range(len(g)) if rnd.random() < 0.5)
            jobs.append((g, header, delta, stiff_idx, backend, workdir, schemes))
    stats = {"templates": len(recs), "models": len(jobs), "compared": 0, "undefined": 0, "errors": 0, "mismatches": 0,
             "guard_decisions": {"euler_branch": 0, "rl_branch": 0}}
    bad = []
    with cf.ProcessPoolExecutor(max_workers=nproc) as ex:
        for job, out in zip(jobs, ex.map(_worker, jobs)):
            group, _, delta, stiff_idx, _, _, _ = job
            for (i, ename, msg) in out["errors"]:
                r = group[i]
                # in the domain only if some grid point has a defined expectation
                if not any(v["grl"]["k"] != "u" for v in r["grid"].values()):
                    continue
                stats["errors"] += 1
                bad.append({"kind": "error", "tag": "generate", "backend": backend, "text": " ".join(r["toks"]), "delta": delta,
                            "exception": ename, "message": msg})
            for i, got in out["values"].items():
                r = group[int(i)]
                is_stiff = int(i) in stiff_idx
                for key, exp in r["grid"].items():
                    g = got[key]
                    for sc, v in (("explicit_euler", exp["euler"]), ("generalized_rush_larsen", exp["grl"]),
                                  ("hybrid_rush_larsen", exp["grl"] if is_stiff else exp["euler"])):
                        if sc not in g:
                            continue
                        if v["k"] == "u":
                            stats["undefined"] += 1
                            continue
                        try:
                            want, mag = resid.value(v)
                        except resid.Undefined:
                            stats["undefined"] += 1
                            continue
                        if abs(want) > 1e100:
                            stats["undefined"] += 1
                            continue
                        stats["compared"] += 1
                        if sc == "generalized_rush_larsen":
                            stats["guard_decisions"]["euler_branch" if exp["grl"] == exp["euler"] else "rl_branch"] += 1
                        if not resid.close(g[sc], want, mag, rtol=1e-8):
                            stats["mismatches"] += 1
                            bad.append({"kind": "value", "tag": sc, "backend": backend, "text": " ".join(r["toks"]),
                                        "delta": delta, "grid": key, "stiff": is_stiff, "got": g[sc], "want": float(want),
                                        "f": resid.fmt(exp["f"]), "g": resid.fmt(exp["g"]),
                                        "x": resid.fmt(header["xs"][int(_KEY.match(key).group(1)) - 1]),
                                        "a": resid.fmt(header["as"][int(_KEY.match(key).group(2)) - 1]),
                                        "dt": resid.fmt(header["dts"][int(_KEY.match(key).group(3)) - 1])})
    return stats, bad
