"""L3 source: the repository's own test-suite, run once more with the hooks on.  Every function the tests
generate leaves an Emit event; validating them with TraceEmit evaluates the properties' rules on executions
whose own assertions are string comparisons."""
from __future__ import annotations

import json
import os
import subprocess
import sys
import tempfile

from . import tlc, traces

TEST_FILES = ["tests/test_python_codegen.py", "tests/test_subodes.py", "tests/test_schemes.py", "tests/test_c_codegen.py",
              "tests/test_myokit.py", "tests/test_save.py", "tests/test_benchmarks.py"]


def collect(repo, timeout=1500):
    fd, path = tempfile.mkstemp(prefix="suite-", suffix=".ndjson", dir=tlc.scratch_root())
    os.close(fd)
    env = dict(os.environ, GOTRANX_VERIF="1", GOTRANX_VERIF_TRACE=path, PYTHONPATH=str(repo / "src"))
    files = [f for f in TEST_FILES if (repo / f).exists()]
    p = subprocess.run([sys.executable, "-m", "pytest", "-q", "-p", "no:cacheprovider", "-p", "no:xdist", "--timeout=900", *files],
                       cwd=repo, env=env, capture_output=True, text=True, timeout=timeout)
    events = []
    with open(path) as f:
        for line in f:
            try:
                events.append(json.loads(line))
            except Exception:  # noqa: BLE001
                pass
    os.unlink(path)
    return events, p.stdout[-300:]


def to_traces(events):
    out = []
    full_order = []
    n = 0
    for ev in events:
        if ev["ev"] == "SortOrder" and ev.get("assignments_only"):
            full_order = ev["order"] if len(ev["order"]) >= len(full_order) or True else full_order
        if ev["ev"] == "Emit":
            n += 1
            # the complete-graph order is only known when nothing was removed
            fo = full_order if not ev["remove_unused"] and set(f"d{s}_dt" for s in ev["state_index"]) <= set(full_order) else []
            try:
                out.extend(traces.emit_event_to_traces(ev, f"suite{n}", None, None, fo))
            except SyntaxError:
                pass
    return out
