"""C18 replay: invocations generated from Cli.tla run through the real typer application in a scratch
directory; exit status, files written and their bytes against the API called with the effective options."""
from __future__ import annotations

import concurrent.futures as cf
import os
import shutil
import tempfile
from pathlib import Path

VALID = "states(x=1, y=2)\nparameters(a=3, b=0.5)\ni = a*x - y\ndx_dt = i - b*x\ndy_dt = x*y - a\n"
MODELS = {
    "valid": VALID,
    "syntax-error": "states(x=1, y=2\nparameters(a=3)\ndx_dt = (a*x\n",
    "ill-formed": "states(x=1, y=2)\nparameters(a=3)\ndx_dt = a*x\n",     # y has no derivative
}


def argv_of(case):
    f = case["flags"]
    cmd = case["cmd"]
    a = [cmd, "model.ode"]
    for s in f["scheme"]:
        a += ["--scheme", s]
    for s in f["stiff"]:
        a += ["-s", s]
    if f["delta"] != "-":
        a += ["--delta", f["delta"]]
    if f["remove_unused"]:
        a += ["--remove-unused"]
    if f["format"] != "-":
        a += ["--format", f["format"]]
    if f["backend"] != "-":
        a += ["--backend", f["backend"]]
    if f["outname"] != "-":
        a += ["-o", f["outname"]]
    if f["to"] != "-":
        a += ["--to", f["to"]]
    if f.get("jax"):
        a += ["--jax"]
    return a


def config_text(c):
    if not c["present"]:
        return None
    lines = ["[tool.gotranx]"]
    if c["scheme"] != ["-"]:
        lines.append("scheme = [" + ", ".join(f'"{s}"' for s in c["scheme"]) + "]")
    if c["delta"] != "-":
        lines.append(f"delta = {float(c['delta'])}")
    if c["stiff"] != ["-"]:
        lines.append("stiff_states = [" + ", ".join(f'"{s}"' for s in c["stiff"]) + "]")
    py, cc = [], []
    if c["pyformat"] != "-":
        py.append(f'format = "{c["pyformat"]}"')
    if c["pybackend"] != "-":
        py.append(f'backend = "{c["pybackend"]}"')
    if c["cformat"] != "-":
        cc.append(f'format = "{c["cformat"]}"')
    if c["cto"] != "-":
        cc.append(f'to = "{c["cto"]}"')
    if py:
        lines += ["", "[tool.gotranx.python]"] + py
    if cc:
        lines += ["", "[tool.gotranx.c]"] + cc
    return "\n".join(lines) + "\n"


def api_text(case, path):
    """The text the library API produces for the effective options."""
    from . import gx
    from gotranx.load import load_ode
    from gotranx.cli import gotran2py, gotran2c
    from gotranx.codegen.python import Format as PF
    from gotranx.codegen.c import Format as CF
    from gotranx.schemes import Scheme
    e = case["eff"]
    ode = load_ode(path)
    schemes = [Scheme(s) for s in e["scheme"]]
    kw = dict(scheme=schemes, remove_unused=e["remove_unused"], delta=float(e["delta"]), stiff_states=list(e["stiff"]))
    if e["suffix"] in (".c", ".h"):
        return gotran2c.get_code(ode, format=CF(e["format"]), **kw)
    return gotran2py.get_code(ode, format=PF(e["format"]), backend=gotran2py.Backend(e["backend"]), **kw)


def scheme_texts(case, path):
    """Every requested scheme generated directly from the code generator with the effective delta / stiff states
    (independent of the helper that the CLI and get_code share): each must appear verbatim in the written file."""
    from . import gx  # noqa: F401
    from gotranx.load import load_ode
    from gotranx.codegen.python import PythonCodeGenerator, Format as PF
    from gotranx.codegen.jax import JaxCodeGenerator
    from gotranx.codegen.c import CCodeGenerator, Format as CF
    from gotranx.schemes import get_scheme
    e = case["eff"]
    ode = load_ode(path)
    if e["suffix"] in (".c", ".h"):
        cg = CCodeGenerator(ode, format=CF.none, remove_unused=e["remove_unused"])
    elif e["backend"] == "jax":
        cg = JaxCodeGenerator(ode, format=PF.none, remove_unused=e["remove_unused"])
    else:
        cg = PythonCodeGenerator(ode, format=PF.none, remove_unused=e["remove_unused"])
    out = {}
    for s in e["scheme"]:
        kw = {}
        if "rush_larsen" in s:
            kw["delta"] = float(e["delta"])
        if s == "hybrid_rush_larsen":
            kw["stiff_states"] = list(e["stiff"])
        out[s] = cg.scheme(get_scheme(s), **kw)
    return out


def run_case(case):
    import warnings
    from . import gx  # noqa: F401
    from typer.testing import CliRunner
    from gotranx.cli import app

    from . import tlc
    import contextlib
    import io
    d = Path(tempfile.mkdtemp(prefix="cli-", dir=tlc.scratch_root()))
    old = os.getcwd()
    out = {"argv": None, "problems": [], "case": {k: case.get(k) for k in ("cmd", "flags", "config", "project", "model")}}
    try:
        os.chdir(d)
        (d / ".git").mkdir()      # this directory is the project root for the automatic pyproject discovery
        if case.get("project"):
            # the project's own configuration (Cli.tla: ProjCfg); it counts only when no --config file is named
            (d / "pyproject.toml").write_text('[tool.gotranx]\nscheme = ["generalized_rush_larsen"]\ndelta = 0.5\n'
                                              'stiff_states = ["y"]\n\n[tool.gotranx.c]\nto = ".c"\n')
        if case["model"] != "missing-file":
            (d / "model.ode").write_text(MODELS[case["model"]])
        argv = argv_of(case)
        ct = config_text(case["config"])
        if ct is not None:
            (d / "conf.toml").write_text(ct)
            argv += ["--config", "conf.toml"]
        out["argv"] = argv
        before = {p.name for p in d.iterdir()} | {"pyproject.toml"}
        with warnings.catch_warnings(), contextlib.redirect_stdout(io.StringIO()), contextlib.redirect_stderr(io.StringIO()):
            warnings.simplefilter("ignore")
            res = CliRunner().invoke(app, argv)
        after = {p.name for p in d.iterdir()}
        new = sorted(after - before)
        out["exit_code"] = res.exit_code
        out["exception"] = f"{type(res.exception).__name__}: {res.exception}"[:200] if res.exception is not None and not isinstance(res.exception, SystemExit) else None
        out["written"] = new
        want_files = sorted(case["files"])
        if case["exit_zero"] != (res.exit_code == 0):
            out["problems"].append({"kind": "exit-status", "got": res.exit_code, "want_zero": case["exit_zero"], "exception": out["exception"]})
        if new != want_files:
            out["problems"].append({"kind": "files-written", "got": new, "want": want_files})
        elif new:
            try:
                want = api_text(case, d / "model.ode")
                got = (d / new[0]).read_text()
                if case["eff"]["format"] == "none":
                    for sname, stext in scheme_texts(case, d / "model.ode").items():
                        if stext.strip() not in got:
                            out["problems"].append({"kind": "scheme-options-not-honoured", "scheme": sname,
                                                    "delta": case["eff"]["delta"], "stiff": case["eff"]["stiff"]})
                if got != want:
                    import difflib
                    diff = "\n".join(list(difflib.unified_diff(want.splitlines(), got.splitlines(), "api", "cli", lineterm=""))[:12])
                    out["problems"].append({"kind": "text-differs-from-api", "diff": diff})
            except Exception as ex:  # noqa: BLE001
                out["problems"].append({"kind": "api-failed", "message": f"{type(ex).__name__}: {ex}"[:200]})
    except Exception as ex:  # noqa: BLE001
        import traceback
        out["problems"].append({"kind": "harness", "message": traceback.format_exc()[-400:]})
    finally:
        os.chdir(old)
        shutil.rmtree(d, ignore_errors=True)
    return out


def replay(cases, nproc=16):
    with cf.ProcessPoolExecutor(max_workers=nproc) as ex:
        return list(ex.map(run_case, cases, chunksize=4))


def stratified(cases, per_stratum, seed):
    """Strata: command x model x (no config | config) x which set-but-falsy value the config holds x whether a
    Rush-Larsen scheme is effectively requested (delta / stiff states only show there)."""
    import random
    rnd = random.Random(seed)
    strata = {}
    for c in cases:
        cfg = c["config"]
        falsy = "-"
        if cfg["present"]:
            falsy = ("delta=0" if cfg["delta"] == "0" else "stiff=[]" if cfg["stiff"] == [] else "scheme=[]" if cfg["scheme"] == [] else "-")
        rl = any("rush_larsen" in s for s in c["eff"].get("scheme", [])) if isinstance(c["eff"], dict) else False
        strata.setdefault((c["cmd"], c["model"], cfg["present"], bool(c.get("project")), falsy, rl), []).append(c)
    out = []
    for k in sorted(strata, key=str):
        lst = strata[k]
        n = per_stratum if k[1] == "valid" else max(2, per_stratum // 6)
        out += rnd.sample(lst, min(n, len(lst)))
    return out
