"""C20 replay: sympytools.states_matrix / rhs_matrix / jacobi_matrix of the real library, evaluated with
exact sympy substitution at the specification's rational points."""
from __future__ import annotations

import concurrent.futures as cf
from fractions import Fraction

from . import modelcase, resid


def check_sym_case(rec):
    from . import gx
    import sympy
    from gotranx import sympytools

    bad = []
    stats = {"compared": 0, "undefined": 0}
    text = modelcase.render_text(rec["blocks"])
    ctx = {"text": text, "shape": rec["shape"], "depth": rec["depth"]}
    ode = gx.load(text)
    ns = gx.exec_module(gx.numpy_code(ode))
    try:
        S = sympytools.states_matrix(ode)
        R = sympytools.rhs_matrix(ode)
        J = sympytools.jacobi_matrix(ode)
    except Exception as ex:  # noqa: BLE001
        return stats, [{"tag": "symbolic", "exception": type(ex).__name__, "message": str(ex)[:200], **ctx}]
    names = [str(s) for s in S]
    # same state order as the generated code
    if [ns["state_index"](n) for n in names] != list(range(len(names))):
        bad.append({"tag": "state-order", "matrix": names, "generated": dict(ns["state"]), **ctx})
    inter = {i.symbol for i in ode.intermediates}
    if R.free_symbols & inter:
        bad.append({"tag": "not-expanded", "left": sorted(map(str, R.free_symbols & inter)), **ctx})
    for c in rec["cases"]:
        inp = c["input"]
        sub = {}
        for a in list(ode.states) + list(ode.parameters):
            v = inp["states"].get(a.name) or inp["params"].get(a.name)
            sub[a.symbol] = sympy.Rational(v["n"], v["d"])
        sub[ode.t] = sympy.Rational(inp["t"]["n"], inp["t"]["d"])
        for i, si in enumerate(names):
            v = R[i].subs(sub)
            if v.free_symbols:   # something that is neither a state, a parameter nor time is left in the entry
                bad.append({"tag": "rhs_matrix-free-symbols", "name": si, "left": sorted(map(str, v.free_symbols)), **ctx})
                continue
            got = float(v)
            modelcase._cmp(bad, stats, "rhs_matrix", si, got, c["rhs"][si], {**ctx, "fn": "rhs_matrix"})
            for j, sj in enumerate(names):
                v = J[i, j].subs(sub)
                if v.free_symbols:
                    bad.append({"tag": "jacobi_matrix-free-symbols", "name": f"{si}/{sj}", "left": sorted(map(str, v.free_symbols)), **ctx})
                    continue
                got = float(v)
                modelcase._cmp(bad, stats, "jacobi_matrix", f"{si}/{sj}", got, c["jac"][si][sj], {**ctx, "fn": "jacobi_matrix"})
    return stats, bad


def _worker(rec):
    try:
        return check_sym_case(rec)
    except Exception as ex:  # noqa: BLE001
        import traceback
        return {"compared": 0, "undefined": 0}, [{"tag": "harness", "exception": type(ex).__name__, "message": traceback.format_exc()[-500:],
                                                   "text": modelcase.render_text(rec["blocks"]), "shape": rec.get("shape"), "depth": rec.get("depth")}]


def replay(recs, nproc=16):
    total = {"models": len(recs), "compared": 0, "undefined": 0}
    bad = []
    with cf.ProcessPoolExecutor(max_workers=nproc) as ex:
        for st, b in ex.map(_worker, recs):
            total["compared"] += st["compared"]
            total["undefined"] += st["undefined"]
            bad.extend(b)
    return total, bad
