"""C20 replay: sympytools.states_matrix / rhs_matrix / jacobi_matrix of the real library, evaluated with
exact sympy substitution at the specification's rational points."""
from __future__ import annotations

import concurrent.futures as cf
from fractions import Fraction

from . import modelcase, resid


def check_sym_case(rec):
    from . import gx
    import sympy
    from gotranx import sympytools

    bad = []
    stats = {"compared": 0, "undefined": 0}
    text = modelcase.render_text(rec["blocks"])
    ctx = {"text": text, "shape": rec["shape"], "depth": rec["depth"]}
    ode = gx.load(text)
    ns = gx.exec_module(gx.numpy_code(ode))
    try:
        S = sympytools.states_matrix(ode)
        R = sympytools.rhs_matrix(ode)
        J = sympytools.jacobi_matrix(ode)
    except Exception as ex:  # noqa: BLE001
        return stats, [{"tag": "symbolic", "exception": type(ex).__name__, "message": str(ex)[:200], **ctx}]
    names = [str(s) for s in S]
    # same state order as the generated code
    if [ns["state_index"](n) for n in names] != list(range(len(names))):
        bad.append({"tag": "state-order", "matrix": names, "generated": dict(ns["state"]), **ctx})
    inter = {i.symbol for i in ode.intermediates}
    if R.free_symbols & inter:
        bad.append({"tag": "not-expanded", "left": sorted(map(str, R.free_symbols & inter)), **ctx})
    for c in rec["cases"]:
        inp = c["input"]
        sub = {}
        for a in list(ode.states) + list(ode.parameters):
            v = inp["states"].get(a.name) or inp["params"].get(a.name)
            sub[a.symbol] = sympy.Rational(v["n"], v["d"])
        sub[ode.t] = sympy.Rational(inp["t"]["n"], inp["t"]["d"])
        for i, si in enumerate(names):
            v = R[i].subs(sub)
            if v.free_symbols:   # something that is neither a state, a parameter nor time is left in the entry
                bad.append({"tag": "rhs_matrix-free-symbols", "name": si, "left": sorted(map(str, v.free_symbols)), **ctx})
                continue
            got = float(v)
            modelcase._cmp(bad, stats, "rhs_matrix", si, got, c["rhs"][si], {**ctx, "fn": "rhs_matrix"})
            for j, sj in enumerate(names):
                v = J[i, j].subs(sub)
                if v.free_symbols:
                    bad.append({"tag": "jacobi_matrix-free-symbols", "name": f"{si}/{sj}", "left": sorted(map(str, v.free_symbols)), **ctx})
                    continue
                got = float(v)
                modelcase._cmp(bad, stats, "jacobi_matrix", f"{si}/{sj}", got, c["jac"][si][sj], {**ctx, "fn": "jacobi_matrix"})
    return stats, bad


def check_struct_case(rec):
    """A structural model (MC_Struct: unused intermediates, components, parameters): rhs_matrix row i must be the
    rate of the state states_matrix lists at row i, expanded down to states / parameters / time, with the
    specification's value; jacobi_matrix must be the derivative of those rows (sympy's own diff as reference is
    circular, so only its shape and free symbols are checked here)."""
    from . import gx
    import sympy
    from gotranx import sympytools

    bad = []
    stats = {"compared": 0, "undefined": 0}
    text = modelcase.render_text(rec["blocks"])
    ctx = {"text": text, "shape": "structural", "depth": 1}
    ode = gx.load(text)
    ns = gx.exec_module(gx.numpy_code(ode))
    try:
        S = sympytools.states_matrix(ode)
        R = sympytools.rhs_matrix(ode)
        J = sympytools.jacobi_matrix(ode)
    except Exception as ex:  # noqa: BLE001
        return stats, [{"tag": "symbolic", "exception": type(ex).__name__, "message": str(ex)[:200], **ctx}]
    names = [str(s) for s in S]
    if [ns["state_index"](n) for n in names] != list(range(len(names))):
        bad.append({"tag": "state-order", "matrix": names, "generated": dict(ns["state"]), **ctx})
    if J.shape != (len(names), len(names)):
        bad.append({"tag": "jacobian-shape", "got": list(J.shape), **ctx})
    for c in rec["cases"]:
        inp = c["input"]
        sub = {}
        for a in list(ode.states) + list(ode.parameters):
            v = inp["states"].get(a.name) or inp["params"].get(a.name)
            sub[a.symbol] = sympy.Rational(v["n"], v["d"])
        sub[ode.t] = sympy.Rational(inp["t"]["n"], inp["t"]["d"])
        for i, si in enumerate(names):
            v = R[i].subs(sub)
            if v.free_symbols:
                bad.append({"tag": "rhs_matrix-free-symbols", "name": si, "left": sorted(map(str, v.free_symbols)), **ctx})
                continue
            try:
                got = float(v)
            except TypeError:
                stats["undefined"] += 1
                continue
            modelcase._cmp(bad, stats, "rhs_matrix", si, got, c["expect"]["rhs"][si], {**ctx, "fn": "rhs_matrix"})
    return stats, bad


def _struct_worker(rec):
    try:
        return check_struct_case(rec)
    except Exception as ex:  # noqa: BLE001
        import traceback
        return {"compared": 0, "undefined": 0}, [{"tag": "harness", "exception": type(ex).__name__, "message": traceback.format_exc()[-500:],
                                                   "text": modelcase.render_text(rec["blocks"]), "shape": "structural", "depth": 1}]


def replay_struct(recs, nproc=16):
    total = {"models": len(recs), "compared": 0, "undefined": 0}
    bad = []
    with cf.ProcessPoolExecutor(max_workers=nproc) as ex:
        for st, b in ex.map(_struct_worker, recs, chunksize=4):
            total["compared"] += st["compared"]
            total["undefined"] += st["undefined"]
            bad.extend(b)
    return total, bad


def _worker(rec):
    try:
        return check_sym_case(rec)
    except Exception as ex:  # noqa: BLE001
        import traceback
        return {"compared": 0, "undefined": 0}, [{"tag": "harness", "exception": type(ex).__name__, "message": traceback.format_exc()[-500:],
                                                   "text": modelcase.render_text(rec["blocks"]), "shape": rec.get("shape"), "depth": rec.get("depth")}]


def replay(recs, nproc=16):
    total = {"models": len(recs), "compared": 0, "undefined": 0}
    bad = []
    with cf.ProcessPoolExecutor(max_workers=nproc) as ex:
        for st, b in ex.map(_worker, recs):
            total["compared"] += st["compared"]
            total["undefined"] += st["undefined"]
            bad.extend(b)
    return total, bad
