"""C19 replay: one identifier in one role, every backend; results must be those of the renamed model
(expectation from the specification), or the loader / generator must refuse the model."""
from __future__ import annotations

import concurrent.futures as cf

from . import modelcase, resid
from .modelcase import qf


def model_text(ident, role):
    s = ident if role == "state" else "x"
    p = ident if role == "param" else "a"
    w = ident if role == "inter" else "w"
    extra = f", {ident} = 3" if role == "unused" else ""
    return (f"states({s} = 1.5, y = 0.5)\nparameters({p} = 2{extra})\n{w} = ({p} * {s} + y) * ({p} * {s} + y)\nu = {w} - 18\nv = (u + y) / (2 + (u + y))\nd{s}_dt = {w} - {s} + v\ndy_dt = {s} * {p}\n"), s, p, w


def check_ident(rec, backend, workdir=None):
    from . import gx
    ident, role = rec["id"], rec["role"]
    text, s, p, w = model_text(ident, role)
    out = {"id": ident, "role": role, "backend": backend, "text": text, "outcome": None, "problems": []}
    try:
        ode = gx.load(text)
    except Exception as ex:  # noqa: BLE001
        out["outcome"] = f"rejected-at-load:{type(ex).__name__}"
        return out
    schemes = ["explicit_euler", "generalized_rush_larsen"]
    try:
        mod = modelcase.make_mod(backend, ode, schemes, workdir=workdir)
    except gx.CompileError as ex:
        out["outcome"] = "not-compilable"
        out["problems"].append({"kind": "not-compilable", "message": str(ex)[:300]})
        return out
    except SyntaxError as ex:
        out["outcome"] = "not-compilable"
        out["problems"].append({"kind": "not-compilable", "message": f"SyntaxError: {ex}"[:300]})
        return out
    except Exception as ex:  # noqa: BLE001
        out["outcome"] = f"rejected-at-generation:{type(ex).__name__}"
        return out
    out["outcome"] = "generated"
    stats = {"compared": 0, "undefined": 0}
    ren = lambda n: "ID" if n == ident else ("dID_dt" if n == f"d{ident}_dt" else n)  # noqa: E731
    try:
        inp = rec["input"]
        sn, pn = [s, "y"], [p]
        S = [0.0, 0.0]
        S[mod.index("state", s)] = qf(inp["s"])
        S[mod.index("state", "y")] = qf(inp["y"])
        pn = [p] + ([ident] if role == "unused" else [])
        P = [0.0] * len(pn)
        P[mod.index("parameter", p)] = qf(inp["p"])
        if role == "unused":
            P[mod.index("parameter", ident)] = 3.0
        if sorted(mod.index("state", n) for n in sn) != [0, 1] or sorted(mod.index("parameter", n) for n in pn) != list(range(len(pn))):
            out["problems"].append({"kind": "index", "message": "index functions are not a bijection"})
        t, dt = qf(inp["t"]), qf(inp["dt"])
        for fn, dtv, names, kind, exp, key in (("rhs", None, sn, "state", rec["den"], lambda n: ren(f"d{n}_dt")),
                                               ("monitor_values", None, [w, "u", "v", f"d{s}_dt", "dy_dt"], "monitor", rec["den"], ren),
                                               ("explicit_euler", dt, sn, "state", rec["euler"], ren),
                                               ("generalized_rush_larsen", dt, sn, "state", rec["grl"], ren)):
            try:
                vals, _ = mod.call(fn, t, S, P, dtv)
            except Exception as ex:  # noqa: BLE001
                out["problems"].append({"kind": "runtime-error", "fn": fn, "message": f"{type(ex).__name__}: {ex}"[:200]})
                continue
            if len(vals) != len(names):
                out["problems"].append({"kind": "lengths", "fn": fn, "got": len(vals), "want": len(names)})
                continue
            for n in names:
                bad = []
                modelcase._cmp(bad, stats, fn, n, vals[mod.index(kind, n)], exp[key(n)], {})
                for b in bad:
                    out["problems"].append({"kind": "captured", "fn": fn, "name": n, "got": b["got"], "want": b["want"]})
        # the generator classes called directly with the documented option use_cse=True (numpy, jax): the functions
        # replace the ones of the module and must return the same numbers
        if backend in ("numpy", "jax"):
            direct_use_cse(ode, mod, backend, t, S, P, sn, [w, "u", "v", f"d{s}_dt", "dy_dt"], rec, ren, out, stats)
        # initial values in their slots
        iv = list(mod.init_states())
        if abs(float(iv[mod.index("state", s)]) - 1.5) > 1e-12 or abs(float(iv[mod.index("state", "y")]) - 0.5) > 1e-12:
            out["problems"].append({"kind": "captured", "fn": "init_state_values", "got": [float(v) for v in iv]})
    except Exception as ex:  # noqa: BLE001
        out["problems"].append({"kind": "runtime-error", "fn": "harness-sequence", "message": f"{type(ex).__name__}: {ex}"[:200]})
    finally:
        mod.close()
        out["compared"], out["undefined"] = stats["compared"], stats["undefined"]
    return out


def direct_use_cse(ode, mod, backend, t, S, P, sn, mon, rec, ren, out, stats):
    from gotranx.codegen.python import PythonCodeGenerator, Format as PF
    from gotranx.codegen.jax import JaxCodeGenerator
    import numpy as np

    cg = (JaxCodeGenerator if backend == "jax" else PythonCodeGenerator)(ode, format=PF.none)
    try:
        ns = dict(mod.ns)
        exec(compile(cg.rhs(use_cse=True) + "\n" + cg.monitor_values(use_cse=True), "<use_cse>", "exec"), ns)
    except Exception as ex:  # noqa: BLE001
        out["problems"].append({"kind": "runtime-error", "fn": "rhs(use_cse=True)", "message": f"{type(ex).__name__}: {ex}"[:200]})
        return
    for fn, names, kind, key in (("rhs", sn, "state", lambda n: ren(f"d{n}_dt")), ("monitor_values", mon, "monitor", ren)):
        try:
            vals = [float(v) for v in np.asarray(ns[fn](t, np.array(S, dtype=float), np.array(P, dtype=float))).ravel()]
        except Exception as ex:  # noqa: BLE001
            out["problems"].append({"kind": "runtime-error", "fn": fn + "(use_cse=True)", "message": f"{type(ex).__name__}: {ex}"[:200]})
            continue
        if len(vals) != len(names):
            out["problems"].append({"kind": "lengths", "fn": fn + "(use_cse=True)", "got": len(vals), "want": len(names)})
            continue
        for n in names:
            bad = []
            modelcase._cmp(bad, stats, fn, n, vals[mod.index(kind, n)], rec["den"][key(n)], {})
            for b in bad:
                out["problems"].append({"kind": "captured", "fn": fn + "(use_cse=True)", "name": n, "got": b["got"], "want": b["want"]})


def _worker(args):
    rec, backend = args
    try:
        if rec["role"] == "missing":
            return check_ident_missing(rec, backend)
        return check_ident(rec, backend)
    except Exception as ex:  # noqa: BLE001
        import traceback
        return {"id": rec["id"], "role": rec["role"], "backend": backend, "text": "", "outcome": "harness-error",
                "problems": [{"kind": "harness", "message": traceback.format_exc()[-400:]}]}


def check_ident_missing(rec, backend):
    """The identifier names a parameter of component A that component B reads: B.to_ode() receives it as a missing
    variable.  Either some stage refuses the name, or the split-off model computes what the renamed model computes."""
    from . import gx
    ident = rec["id"]
    text = (f'parameters("A", {ident} = 2)\nstates("A", z = 1)\nexpressions("A")\ndz_dt = -z\n'
            f'states("B", x = 1.5, y = 0.5)\nexpressions("B")\nw = ({ident} * x + y) * ({ident} * x + y)\nu = w - 18\nv = (u + y) / (2 + (u + y))\ndx_dt = w - x + v\ndy_dt = x * {ident}\n')
    out = {"id": ident, "role": "missing", "backend": backend, "text": text, "outcome": None, "problems": []}
    try:
        ode = gx.load(text)
        half = ode.get_component("B").to_ode()
        mod = modelcase.make_mod(backend, half, ["explicit_euler"])
    except Exception as ex:  # noqa: BLE001
        out["outcome"] = f"rejected:{type(ex).__name__}"
        return out
    out["outcome"] = "generated"
    try:
        inp = rec["input"]
        S = [0.0, 0.0]
        S[mod.index("state", "x")] = qf(inp["s"])
        S[mod.index("state", "y")] = qf(inp["y"])
        miss = [qf(inp["p"])]
        t, dt = qf(inp["t"]), qf(inp["dt"])
        stats = {"compared": 0, "undefined": 0}
        for fn, dtv, exp, key in (("rhs", None, rec["den"], lambda n: f"d{n}_dt"), ("explicit_euler", dt, rec["euler"], lambda n: n)):
            try:
                vals, _ = mod.call(fn, t, S, [], dtv, missing=miss)
            except Exception as ex:  # noqa: BLE001
                out["problems"].append({"kind": "runtime-error", "fn": fn, "message": f"{type(ex).__name__}: {ex}"[:200]})
                continue
            for n in ("x", "y"):
                bad = []
                modelcase._cmp(bad, stats, fn, n, vals[mod.index("state", n)], exp[key(n)], {})
                for b in bad:
                    out["problems"].append({"kind": "captured", "fn": fn, "name": n, "got": b["got"], "want": b["want"]})
    except Exception as ex:  # noqa: BLE001
        out["problems"].append({"kind": "runtime-error", "fn": "harness-sequence", "message": f"{type(ex).__name__}: {ex}"[:200]})
    finally:
        mod.close()
    return out


def replay(recs, backends=("numpy", "jax", "c"), nproc=16):
    jobs = [(r, b) for r in recs for b in backends]
    # the state-role record of an identifier carries the expectations of the 2-state model: reuse it for the
    # "missing variable" role (the identifier is then the PARAMETER p of that model)
    jobs += [(dict(r, role="missing"), b) for r in recs if r["role"] == "param" for b in ("numpy", "c")]
    with cf.ProcessPoolExecutor(max_workers=nproc) as ex:
        return list(ex.map(_worker, jobs, chunksize=2))
