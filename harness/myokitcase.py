"""C15 replay: scoped Myokit models rendered as .mmt text, imported, saved, reloaded, evaluated."""
from __future__ import annotations

import concurrent.futures as cf
import shutil
import tempfile
from pathlib import Path

from . import resid, tlc
from .modelcase import qf


def local_ref(path, ctx):
    """How the variable at `path` is written inside the definition of the variable at `ctx`."""
    if path.startswith("dot(") and path.endswith(")"):
        return "dot(" + local_ref(path[4:-1], ctx) + ")"
    p, c = path.split("."), ctx.split(".")
    if p[0] != c[0]:
        return ".".join(p[:2])          # comp.var (only component level variables are referenced across components)
    return p[-1]


_REL = {"Gt": ">", "Lt": "<", "Ge": ">=", "Le": "<=", "Eq": "==", "Ne": "!="}


def args_of_text(text):
    """'(a, b, c)...' -> (['a', 'b', 'c'], rest) splitting at top-level commas."""
    depth, cur, out = 0, "", []
    for i, ch in enumerate(text):
        if ch == "(":
            depth += 1
            if depth == 1:
                continue
        elif ch == ")":
            depth -= 1
            if depth == 0:
                out.append(cur.strip())
                return out, text[i + 1:]
        elif ch == "," and depth == 1:
            out.append(cur.strip())
            cur = ""
            continue
        cur += ch
    raise ValueError("unbalanced")


def to_mmt(tokens):
    """The specification's tokens (gotranx syntax) in Myokit's syntax: Conditional(c, a, b) -> if(c, a, b),
    Gt(a, b) -> (a > b), And/Or/Not -> and/or/not."""
    def args_of(i):
        # tokens[i] == "(" -> (list of argument token lists, index after the matching ")")
        depth, cur, out, j = 0, [], [], i
        while True:
            t = tokens[j]
            if t == "(":
                depth += 1
                if depth > 1:
                    cur.append(t)
            elif t == ")":
                depth -= 1
                if depth == 0:
                    out.append(cur)
                    return out, j + 1
                cur.append(t)
            elif t == "," and depth == 1:
                out.append(cur)
                cur = []
            else:
                cur.append(t)
            j += 1

    out, i = [], 0
    while i < len(tokens):
        t = tokens[i]
        if t in ("Conditional", "And", "Or", "Not") or t in _REL:
            args, i = args_of(i + 1)
            a = [" ".join(to_mmt(x)) for x in args]
            if t == "Conditional":
                # an else-branch that is itself a conditional: Myokit's flat multi-branch piecewise(c1, a, c2, b, d)
                if a[2].startswith("if(") and a[2].endswith(")"):
                    inner, _ = args_of_text(a[2][2:])
                    out.append(f"piecewise({a[0]}, {a[1]}, {', '.join(inner)})")
                else:
                    out.append(f"if({a[0]}, {a[1]}, {a[2]})")
            elif t in _REL:
                out.append(f"(({a[0]}) {_REL[t]} ({a[1]}))")
            elif t == "Not":
                out.append(f"(not ({a[0]}))")
            else:
                out.append("(" + f" {t.lower()} ".join(f"({x})" for x in a) + ")")
            continue
        out.append(t)
        i += 1
    return out


def render_mmt(rec):
    vars_ = rec["vars"]
    comps = {}
    for path in vars_:
        comps.setdefault(path.split(".")[0], []).append(path)
    lines = ["[[model]]", "name: gen", "# Initial values"]
    for path, v in sorted(vars_.items()):
        if v["kind"] == "state":
            lines.append(f"{path} = {''.join(v['init'])}")
    lines += ["", "[engine]", "time = 0 bind time", ""]

    def expr(path):
        return " ".join(to_mmt([local_ref(t, path) if (t in vars_ or t.startswith("dot(")) else t for t in vars_[path]["toks"]]))

    def emit(path, depth):
        name = path.split(".")[-1]
        ind = "    " * depth
        if vars_[path]["kind"] == "state":
            lines.append(f"{ind}dot({name}) = {expr(path)}")
        else:
            lines.append(f"{ind}{name} = {expr(path)}")
        for child in sorted(p for p in vars_ if p.startswith(path + ".") and p.count(".") == path.count(".") + 1):
            emit(child, depth + 1)

    for comp in sorted(comps):
        lines.append(f"[{comp}]")
        for path in sorted(p for p in comps[comp] if p.count(".") == 1):
            emit(path, 0)
        lines.append("")
    return "\n".join(lines)


def check_case(rec):
    from . import gx
    import myokit
    import numpy as np
    from gotranx.myokit import myokit_to_gotran, gotran_to_myokit
    from gotranx.load import load_ode

    text = render_mmt(rec)
    out = {"mmt": text, "problems": [], "discarded": None, "compared": 0}
    try:
        model = myokit.parse_model(text)
        model.validate()
    except Exception as ex:  # noqa: BLE001
        out["discarded"] = f"rendering rejected by myokit: {type(ex).__name__}: {str(ex)[:160]}"
        return out
    states = list(model.states())
    qnames = [s.qname() for s in states]
    # second opinion: Myokit's own evaluation must agree with the specification, else the rendering is at fault
    for pt in rec["points"]:
        st = [qf(pt["state"][q]) for q in qnames]
        try:
            d = model.evaluate_derivatives(state=st, ignore_errors=True)
        except Exception as ex:  # noqa: BLE001
            out["discarded"] = f"myokit cannot evaluate: {type(ex).__name__}"
            return out
        for q, dv in zip(qnames, d):
            want, mag = resid.value(pt["deriv"][q])
            if not resid.close(float(dv), want, mag):
                out["discarded"] = f"myokit disagrees with the specification on {q}: {dv} vs {float(want)}"
                return out
    d = Path(tempfile.mkdtemp(prefix="mk-", dir=tlc.scratch_root()))
    try:
        try:
            ode = myokit_to_gotran(model)
        except Exception as ex:  # noqa: BLE001
            out["problems"].append({"kind": "import-error", "message": f"{type(ex).__name__}: {str(ex)[:200]}"})
            return out
        m2 = model.clone()
        m2.create_unique_names()
        # a unique name that the .ode language cannot hold as it is may carry a trailing underscore: the name in force
        # is read off the imported model, not assumed
        have = {a.name for a in list(ode.states) + list(ode.parameters) + list(ode.intermediates)}
        uname = {}
        for v in m2.variables(deep=True):
            u = v.uname()
            uname[v.qname()] = u if u in have or (u + "_") not in have else u + "_"
        # states and constants appear under their unique names with their values
        got_states = {s.name: float(s.value) for s in ode.states}
        for q in qnames:
            u = uname[q]
            want = qf(rec["points"][0]["state"][q])
            if u not in got_states or abs(got_states[u] - want) > 1e-12:
                out["problems"].append({"kind": "state-missing-or-wrong-initial-value", "name": u, "got": got_states.get(u), "want": want})
        got_params = {p.name: float(p.value) for p in ode.parameters}
        for path, v in rec["vars"].items():
            if v["kind"] == "const":
                u = uname[path]
                if u not in got_params:
                    out["problems"].append({"kind": "constant-missing", "name": u})
        if len(set(uname.values())) != len(uname):
            out["problems"].append({"kind": "names-not-injective", "names": uname})
        try:
            ode.save(d / "m.ode")
            ode2 = load_ode(d / "m.ode")
        except Exception as ex:  # noqa: BLE001
            out["problems"].append({"kind": "save-reload-error", "message": f"{type(ex).__name__}: {str(ex)[:200]}",
                                    "saved": (d / "m.ode").read_text()[:600] if (d / "m.ode").exists() else None})
            return out
        ns = gx.exec_module(gx.numpy_code(ode2))
        p = ns["init_parameter_values"]()
        # the imported model BEFORE it was saved cannot be generated (documented), but its sympy expressions can be
        # evaluated: what they give at a point is what the reloaded model must give (C11: saving changes nothing)
        def unsaved_rhs(point):
            import sympy
            # by NAME: the symbols inside the imported expressions and the atoms' own symbols differ in assumptions
            inter = {a.name: a.expr for a in ode.intermediates}
            vals = {uname[q]: sympy.Float(qf(point["state"][q])) for q in qnames}
            vals.update({pp.name: sympy.Float(float(pp.value)) for pp in ode.parameters})
            vals[str(ode.t)] = sympy.Float(0.0)
            res_ = {}
            for dd in ode.state_derivatives:
                e = dd.expr
                for _ in range(len(inter) + 2):
                    rep = {sy: inter[sy.name] for sy in e.free_symbols if sy.name in inter}
                    if not rep:
                        break
                    e = e.xreplace(rep)
                v = sympy.N(e.xreplace({sy: vals[sy.name] for sy in e.free_symbols if sy.name in vals}))
                res_[dd.state.name] = float(v) if v.is_number and v.is_real else None
            return res_
        for pt in rec["points"]:
            s = np.zeros(len(qnames))
            for q in qnames:
                s[ns["state_index"](uname[q])] = qf(pt["state"][q])
            with gx.quiet_np():
                vals = ns["rhs"](0.0, s, p)
            try:
                pre = unsaved_rhs(pt)
            except Exception:  # noqa: BLE001
                pre = {}
            for q in qnames:
                a, b = pre.get(uname[q]), float(vals[ns["state_index"](uname[q])])
                if a is not None and a == a and b == b and abs(a - b) > 1e-9 * max(1.0, abs(a)):
                    out["problems"].append({"kind": "save-reload-changes-rhs", "state": q, "before_saving": a, "after_reload": b})
                elif a is not None:
                    out["unsaved_compared"] = out.get("unsaved_compared", 0) + 1
            for q in qnames:
                want, mag = resid.value(pt["deriv"][q])
                out["compared"] += 1
                g = float(vals[ns["state_index"](uname[q])])
                if not resid.close(g, want, mag):
                    out["problems"].append({"kind": "rhs-differs", "state": q, "got": g, "want": float(want)})
        # back to Myokit: values preserved
        try:
            back = gotran_to_myokit(ode2)
            bq = {v.name(): v for v in back.states()}
            st = [None] * len(list(back.states()))
            for i, v in enumerate(back.states()):
                q = [k for k in qnames if uname[k] == v.name()]
                st[i] = qf(rec["points"][1]["state"][q[0]]) if q else 0.0
            dv = back.evaluate_derivatives(state=st, ignore_errors=True)
            for v, dd in zip(back.states(), dv):
                q = [k for k in qnames if uname[k] == v.name()]
                if q:
                    want, mag = resid.value(rec["points"][1]["deriv"][q[0]])
                    out["compared"] += 1
                    if not resid.close(float(dd), want, mag):
                        out["problems"].append({"kind": "back-to-myokit-differs", "state": q[0], "got": float(dd), "want": float(want)})
        except Exception as ex:  # noqa: BLE001
            out["problems"].append({"kind": "back-to-myokit-error", "message": f"{type(ex).__name__}: {str(ex)[:200]}"})
    finally:
        shutil.rmtree(d, ignore_errors=True)
    return out


def _worker(rec):
    try:
        return check_case(rec)
    except Exception as ex:  # noqa: BLE001
        import traceback
        return {"mmt": "", "problems": [{"kind": "harness", "message": traceback.format_exc()[-500:]}], "discarded": None, "compared": 0}


def replay(recs, nproc=16):
    with cf.ProcessPoolExecutor(max_workers=nproc) as ex:
        return list(ex.map(_worker, recs, chunksize=4))
