"""The expression corpus: TLC (MC_Expr) generates expressions with their reference values, the
harness turns each token sequence into text, pushes it through the real gotranx pipeline in
batches (one state per expression: `ds<j>_dt = <expression>`), and compares what the generated
function returns with the value the specification computed.

The harness knows nothing about precedence, associativity or function semantics: the text is
the tokens joined by blanks, the expectation is the specification's value.
"""
from __future__ import annotations

import concurrent.futures as cf
import hashlib
import json
import math
import os
import random
import time
from fractions import Fraction

from . import tlc
from . import resid

QUICK_LEVELS = [1, 2, 3, 4, 5, 8]
THOROUGH_LEVELS = [1, 2, 3, 4, 5, 6, 7, 8]
ALWAYS_COMPLETE = {5, 8}      # small families (precedence chains, literals, degenerate conditionals, ...): never sampled
INVARIANTS = ["ParseRenderId", "WellTyped", "LazyRefinesStrict", "Emit", "EmitHeader"]


def run_level(level: int, workers: int = 4, timeout: int = 900) -> tlc.TLCResult:
    cfg = tlc.make_cfg(
        constants={"NumLex": "<- NumLexDef", "BigToks": "<- BigToksDef", "Lvl": level},
        invariants=INVARIANTS,
        view="View",
    )
    return tlc.run_tlc("MC_Expr", cfg, workers=workers, timeout=timeout, constants_for_summary={"Lvl": level})


def generate(levels, total_workers: int = 16, timeout: int = 900):
    """Run the levels concurrently; returns (results, header, cases)."""
    per = max(2, total_workers // max(1, len(levels)))
    with cf.ThreadPoolExecutor(len(levels)) as ex:
        results = list(ex.map(lambda l: run_level(l, per, timeout), levels))
    header = None
    cases = []
    for r in results:
        lvl = r.constants["Lvl"]
        for rec in r.records:
            if rec.get("header"):
                header = rec
            else:
                rec["lvl"] = lvl
                cases.append(rec)
        r.records = []
    return results, header, cases


def case_key(c) -> str:
    return hashlib.sha1(" ".join(c["tmin"]).encode()).hexdigest()[:12]


def sample(cases, cap: int, seed: int):
    """Deterministic sample: every level keeps at most cap cases (seeded)."""
    by = {}
    for c in cases:
        by.setdefault(c["lvl"], []).append(c)
    out = []
    for lvl in sorted(by):
        lst = sorted(by[lvl], key=case_key)
        if len(lst) > cap and lvl not in ALWAYS_COMPLETE:
            rnd = random.Random(seed * 1000 + lvl)
            lst = rnd.sample(lst, cap)
        out.extend(lst)
    return out


def qfloat(v) -> float:
    return float(Fraction(v["n"], v["d"]))


def defined_points(c):
    return [p for p, v in enumerate(c["vals"]) if v["k"] != "u"]


def _harness_defined_points(c):
    out = []
    for p, v in enumerate(c["vals"]):
        if v["k"] == "u":
            continue
        try:
            w, m = resid.value(v)
        except resid.Undefined:
            continue
        if abs(w) > 1e200 or m > 1e200:
            continue
        out.append(p)
    return out


def expr_text(tokens, is_bool, compact=False) -> str:
    """compact: the same tokens written without any blank between them (`-2**2`, `x*-y`); the lexer must find the
    same tokens (no two operands are ever adjacent in an accepted token sequence)."""
    s = ("" if compact else " ").join(tokens)
    return (f"Conditional({s},1,0)" if compact else f"Conditional({s}, 1, 0)") if is_bool else s


def build_model(entries) -> str:
    """entries: list of expression texts; one state s<j> per expression."""
    n = len(entries)
    lines = ["states(x=1, y=1, " + ", ".join(f"s{j}=0" for j in range(n)) + ")", "parameters(a=1)"]
    lines += [f"ds{j}_dt = {t}" for j, t in enumerate(entries)]
    lines += ["dx_dt = 0", "dy_dt = 0"]
    return "\n".join(lines) + "\n"


# ----------------------------------------------------------------------------------------------
# worker side

def _eval_numpy(ns, n, envs):
    from . import gx
    import numpy as np

    out = []
    si, pi = ns["state_index"], ns["parameter_index"]
    for env in envs:
        states = np.zeros(n + 2)
        states[si("x")] = qfloat(env["x"])
        states[si("y")] = qfloat(env["y"])
        params = np.zeros(1)
        params[pi("a")] = qfloat(env["a"])
        with gx.quiet_np():
            vals = ns["rhs"](qfloat(env["t"]), states, params)
        out.append([float(vals[si(f"s{j}")]) for j in range(n)])
    return out


def _eval_numpy_batch(ns, n, envs):
    """C14: one call with (n_states, N) arrays, per-column parameters and time."""
    from . import gx
    import numpy as np

    si, pi = ns["state_index"], ns["parameter_index"]
    N = len(envs)
    states = np.zeros((n + 2, N))
    params = np.zeros((1, N))
    t = np.zeros(N)
    for k, env in enumerate(envs):
        states[si("x"), k] = qfloat(env["x"])
        states[si("y"), k] = qfloat(env["y"])
        params[pi("a"), k] = qfloat(env["a"])
        t[k] = qfloat(env["t"])
    with gx.quiet_np():
        vals = ns["rhs"](t, states, params)
    vals = np.asarray(vals)
    assert vals.shape == (n + 2, N), vals.shape
    return [[float(vals[si(f"s{j}"), k]) for j in range(n)] for k in range(N)]


def _eval_jax(ns, n, envs, jit):
    import numpy as np
    import jax

    si, pi = ns["state_index"], ns["parameter_index"]
    out = []
    for env in envs:
        states = np.zeros(n + 2)
        states[si("x")] = qfloat(env["x"])
        states[si("y")] = qfloat(env["y"])
        params = np.zeros(1)
        params[pi("a")] = qfloat(env["a"])
        if jit:
            vals = ns["rhs"](qfloat(env["t"]), states, params)
        else:
            with jax.disable_jit():
                vals = ns["rhs"](qfloat(env["t"]), states, params)
        vals = np.asarray(vals)
        assert vals.shape == (n + 2,), vals.shape
        out.append([float(vals[si(f"s{j}")]) for j in range(n)])
    return out


def _eval_c(code, n, envs, workdir):
    import ctypes
    import shutil
    from . import gx

    lib, d = gx.compile_c(code, workdir)
    try:
        lib.state_index.restype = ctypes.c_int
        lib.parameter_index.restype = ctypes.c_int
        si = lambda name: lib.state_index(name.encode())  # noqa: E731
        pi = lambda name: lib.parameter_index(name.encode())  # noqa: E731
        out = []
        for env in envs:
            states = gx.c_array(n + 2)
            states[si("x")] = qfloat(env["x"])
            states[si("y")] = qfloat(env["y"])
            params = gx.c_array(1)
            params[pi("a")] = qfloat(env["a"])
            vals = gx.c_array(n + 2)
            lib.rhs(ctypes.c_double(qfloat(env["t"])), states, params, vals)
            out.append([float(vals[si(f"s{j}")]) for j in range(n)])
        return out
    finally:
        import _ctypes

        try:
            _ctypes.dlclose(lib._handle)
        except Exception:
            pass
        shutil.rmtree(d, ignore_errors=True)


def _run_entries(texts, envs, backend, workdir):
    """Returns per point list of values, or raises."""
    from . import gx

    model = build_model(texts)
    n = len(texts)
    if backend == "saveload":
        import tempfile
        from pathlib import Path
        from gotranx.load import load_ode

        ode0 = gx.load(model)
        d = Path(tempfile.mkdtemp(prefix="sl-", dir=workdir))
        try:
            ode0.save(d / "m.ode")
            ode = load_ode(d / "m.ode")
        finally:
            import shutil

            shutil.rmtree(d, ignore_errors=True)
        _, _, ns = gx.gen_numpy(ode)
        return _eval_numpy(ns, n, envs)
    ode = gx.load(model)
    if backend == "numpy":
        ns = gx.exec_module(gx.numpy_code(ode))
        return _eval_numpy(ns, n, envs)
    if backend == "numpy-batch":
        ns = gx.exec_module(gx.numpy_code(ode))
        return _eval_numpy_batch(ns, n, envs)
    if backend in ("jax", "jax-jit"):
        gx.jax_ready()
        ns = gx.exec_module(gx.jax_code(ode))
        return _eval_jax(ns, n, envs, jit=(backend == "jax-jit"))
    if backend == "c":
        return _eval_c(gx.c_code(ode), n, envs, workdir)
    raise ValueError(backend)


def _worker(args):
    """One batch: entries = [(case_index, style, text)], returns dict of outcomes."""
    entries, envs, backend, workdir = args
    res = {"values": {}, "errors": []}

    def attempt(ix):
        texts = [entries[i][2] for i in ix]
        vals = _run_entries(texts, envs, backend, workdir)
        for pos, i in enumerate(ix):
            res["values"][i] = [vals[p][pos] for p in range(len(envs))]

    def split(ix):
        if not ix:
            return
        try:
            attempt(ix)
        except Exception as ex:  # noqa: BLE001
            if len(ix) == 1:
                res["errors"].append((ix[0], type(ex).__name__, str(ex)[:300]))
            else:
                h = len(ix) // 2
                split(ix[:h])
                split(ix[h:])

    split(list(range(len(entries))))
    return res


def replay(cases, envs, backend: str = "numpy", nproc: int = 16, batch: int = 120, styles=("tmin", "tfull"),
           workdir=None):
    """Replay the cases.  Returns a dict with counters and a list of mismatches."""
    t0 = time.time()
    workdir = str(workdir or tlc.scratch_root())
    entries = []
    skipped_undefined = 0
    for ci, c in enumerate(cases):
        if not defined_points(c):
            skipped_undefined += 1
            continue
        seen = set()
        for st in styles:
            compact = st.endswith("-compact")
            toks = c[st.replace("-compact", "")]
            key = (tuple(toks), compact)
            if key in seen:
                continue
            seen.add(key)
            entries.append((ci, st, expr_text(toks, c["bool"], compact)))
    batches = [entries[i:i + batch] for i in range(0, len(entries), batch)]
    jobs = [(b, envs, backend, workdir) for b in batches]
    stats = {"cases": len(cases), "entries": len(entries), "skipped_all_undefined": skipped_undefined,
             "points_compared": 0, "points_undefined": 0, "points_residual_undefined": 0,
             "errors": 0, "errors_outside_domain": 0, "mismatches": 0, "models": len(batches)}
    bad = []
    with cf.ProcessPoolExecutor(max_workers=nproc) as ex:
        for b, out in zip(batches, ex.map(_worker, jobs)):
            for (i, ename, msg) in out["errors"]:
                ci, st, text = b[i]
                if len(_harness_defined_points(cases[ci])) < 2:
                    # defined nowhere, or only at an isolated point of the grid (sqrt(-abs(x)) at x = 0): not a model
                    stats["errors_outside_domain"] += 1
                    continue
                stats["errors"] += 1
                bad.append({"kind": "error", "backend": backend, "text": text, "style": st, "exception": ename,
                            "message": msg, "tokens": cases[ci][st.replace("-compact", "")], "vals": cases[ci]["vals"],
                            "case": {k: cases[ci][k] for k in ("tmin", "tfull", "bool", "vals")}, "envs": envs})
            for i, got in out["values"].items():
                ci, st, text = b[int(i)]
                c = cases[ci]
                for p, v in enumerate(c["vals"]):
                    if v["k"] == "u":
                        stats["points_undefined"] += 1
                        continue
                    try:
                        want, mag = resid.value(v)
                    except resid.Undefined:
                        stats["points_residual_undefined"] += 1
                        continue
                    if abs(want) > 1e200 or mag > 1e200:
                        stats["points_residual_undefined"] += 1
                        continue
                    stats["points_compared"] += 1
                    if not resid.close(got[p], want, mag):
                        stats["mismatches"] += 1
                        bad.append({"kind": "value", "backend": backend, "text": text, "style": st, "point": p,
                                    "env": {k: resid.fmt(x) for k, x in envs[p].items()},
                                    "got": got[p], "want": float(want), "want_exact": resid.fmt(v),
                                    "tokens": c[st.replace("-compact", "")], "case": {k: c[k] for k in ("tmin", "tfull", "bool", "vals")}, "envs": envs})
    stats["wall_s"] = round(time.time() - t0, 1)
    return stats, bad
