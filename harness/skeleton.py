"""Statement skeletons of generated code (the projection compared with the specification).

From the emitted text of one function the skeleton is the sequence of
  {"k": "unpackS"|"unpackP"|"unpackM", "name", "slot"}
  {"k": "alloc", "name", "uses"}
  {"k": "def", "name", "uses"}
  {"k": "store", "slot", "uses"}
  {"k": "return", "nret"}            nret = number of returned entries when it is syntactically visible, else -1
Only assignment structure is read (Python: the `ast` module; C: a statement tokenizer); no text is
compared with expected text.
"""
from __future__ import annotations

import ast
import re

MODULE_NAMES = {"numpy", "math", "jax", "jnp", "True", "False", "None", "len"}
UNPACKED = {"states": "unpackS", "parameters": "unpackP", "missing_variables": "unpackM"}


def _uses(node) -> list[str]:
    out = set()
    for n in ast.walk(node):
        if isinstance(n, ast.Name) and isinstance(n.ctx, ast.Load) and n.id not in MODULE_NAMES:
            out.add(n.id)
    return sorted(out)


def _consts(node) -> list[str]:
    return sorted({repr(abs(float(c.value))) for c in ast.walk(node)
                   if isinstance(c, ast.Constant) and isinstance(c.value, (int, float)) and not isinstance(c.value, bool)})


def _ops(node) -> list[str]:
    """Comparison operators (and negations, which turn their meaning around) of an expression."""
    out = {type(o).__name__ for c in ast.walk(node) if isinstance(c, ast.Compare) for o in c.ops}
    for c in ast.walk(node):
        if isinstance(c, ast.UnaryOp) and isinstance(c.op, (ast.Not, ast.Invert)):
            out.add("Not")
        if isinstance(c, ast.Call):
            f = c.func.attr if isinstance(c.func, ast.Attribute) else getattr(c.func, "id", "")
            if f in ("logical_not", "invert", "bitwise_not"):
                out.add("Not")
            if f in ("greater", "less"):
                out.add({"greater": "Gt", "less": "Lt"}[f])
            if f in ("greater_equal", "less_equal"):
                out.add({"greater_equal": "GtE", "less_equal": "LtE"}[f])
    return sorted(out)


def _calls(node) -> list[str]:
    out = set()
    for c in ast.walk(node):
        if isinstance(c, ast.Call):
            out.add(c.func.attr if isinstance(c.func, ast.Attribute) else getattr(c.func, "id", "?"))
        if isinstance(c, ast.IfExp):
            out.add("where")
    return sorted(out)


def _facts(node) -> dict:
    return {"uses": _uses(node), "consts": _consts(node), "ops": _ops(node), "calls": _calls(node)}


NO_GUARD = {"present": False, "cond_uses": [], "consts": [], "ops": [], "then_uses": [], "else_uses": []}


def _py_guard(val) -> dict:
    """Outermost selection in a stored expression: <lib>.where(c, a, b) or (a if c else b)."""
    for n in ast.walk(val):  # breadth first: the outermost one is met first
        cond = None
        if isinstance(n, ast.Call) and isinstance(n.func, ast.Attribute) and n.func.attr == "where" and len(n.args) == 3:
            cond, a, b = n.args
        elif isinstance(n, ast.IfExp):
            cond, a, b = n.test, n.body, n.orelse
        if cond is None:
            continue
        return {"present": True, "cond_uses": _uses(cond), "consts": _consts(cond), "ops": _ops(cond),
                "then_uses": _uses(a), "else_uses": _uses(b)}
    return dict(NO_GUARD)


def python_functions(code: str) -> dict[str, list[dict]]:
    tree = ast.parse(code)
    out = {}
    for fn in tree.body:
        if isinstance(fn, ast.FunctionDef):
            out[fn.name] = {"args": [a.arg for a in fn.args.args + fn.args.kwonlyargs], "stmts": _py_body(fn)}
    return out


def _returned(fn: ast.FunctionDef):
    """(name of the returned array | None, names of a returned list | None)."""
    for st in fn.body:
        if isinstance(st, ast.Return) and st.value is not None:
            v = st.value
            if isinstance(v, ast.Name):
                return v.id, None
            if isinstance(v, ast.Call) and v.args and isinstance(v.args[0], (ast.List, ast.Tuple)):
                return None, [e.id if isinstance(e, ast.Name) else "?" for e in v.args[0].elts]
            if isinstance(v, (ast.List, ast.Tuple)):
                return None, [e.id if isinstance(e, ast.Name) else "?" for e in v.elts]
    return None, None


def _py_body(fn: ast.FunctionDef) -> list[dict]:
    """The output array is whatever the function returns: either one array that is allocated and then
    written slot by slot (`r = ..; r[i] = ..; return r`), or a list of names (`return lib.array([a, b, ..])`:
    the definition of the name at position i is the store of slot i).  No name of a local is assumed."""
    stmts = []
    out_name, out_list = _returned(fn)
    pos = {}
    if out_list:
        for i, n in enumerate(out_list):
            pos.setdefault(n, []).append(i)
    for st in fn.body:
        if isinstance(st, ast.Expr) and isinstance(st.value, ast.Constant):
            continue  # docstring
        if isinstance(st, ast.Return):
            nret = len(out_list) if out_list is not None else -1
            bad = out_list is not None and ("?" in out_list or len(set(out_list)) != len(out_list))
            stmts.append({"k": "return", "nret": nret, "rets": out_list or [], "rets_ok": not bad,
                          "uses": [] if out_list is not None else (_uses(st.value) if st.value is not None else [])})
            continue
        if not isinstance(st, ast.Assign) or len(st.targets) != 1:
            stmts.append({"k": "other", "uses": _uses(st), "src": ast.dump(st)[:80]})
            continue
        tgt, val = st.targets[0], st.value
        if isinstance(tgt, ast.Subscript) and isinstance(tgt.value, ast.Name) and tgt.value.id == out_name:
            idx = tgt.slice
            slot = idx.value if isinstance(idx, ast.Constant) and isinstance(idx.value, int) else -1
            stmts.append({"k": "store", "slot": slot, **_facts(val), "guard": _py_guard(val)})
            continue
        if isinstance(tgt, ast.Name):
            if tgt.id in pos:
                if len(pos[tgt.id]) != 1:
                    stmts.append({"k": "other", "uses": _uses(st), "src": "name returned twice: " + tgt.id})
                else:
                    stmts.append({"k": "store", "slot": pos[tgt.id][0], "name": tgt.id, **_facts(val), "guard": _py_guard(val)})
                continue
            if (isinstance(val, ast.Subscript) and isinstance(val.value, ast.Name) and val.value.id in UNPACKED
                    and isinstance(val.slice, ast.Constant)):
                stmts.append({"k": UNPACKED[val.value.id], "name": tgt.id, "slot": val.slice.value})
                continue
            if tgt.id == out_name or tgt.id == "shape":
                stmts.append({"k": "alloc", "name": tgt.id, **_facts(val)})
                continue
            stmts.append({"k": "def", "name": tgt.id, **_facts(val)})
            continue
        stmts.append({"k": "other", "uses": _uses(st), "src": ast.dump(st)[:80]})
    return stmts


# ------------------------------------------------------------------------------------------------
C_WORDS = {"const", "double", "int", "char", "void", "if", "else", "return", "exp", "pow", "fabs", "floor", "ceil",
           "fmod", "log", "sqrt", "sin", "cos", "tan", "asin", "acos", "atan", "sinh", "cosh", "tanh", "log10", "log2",
           "M_PI", "M_E", "fmax", "fmin", "abs", "strcmp", "NULL", "expm1", "log1p", "cbrt", "hypot", "atan2", "erf"}
_C_FN = re.compile(r"^void\s+(\w+)\s*\(([^)]*)\)\s*\{", re.M)


def _c_idents(s: str) -> list[str]:
    s = re.sub(r"\b\d+\.?\d*(?:[eE][+-]?\d+)?[fFlL]?\b", " ", s)
    return sorted({t for t in re.findall(r"[A-Za-z_]\w*", s) if t not in C_WORDS})


_C_NUM = re.compile(r"(?<![\w.])\d+\.?\d*(?:[eE][+-]?\d+)?")


def _match_fwd(s: str, i: int) -> int:
    """s[i] == '(' -> index of the matching ')'."""
    depth = 0
    for j in range(i, len(s)):
        depth += {"(": 1, ")": -1}.get(s[j], 0)
        if depth == 0:
            return j
    raise ValueError("unbalanced")


_C_CALL = re.compile(r"\b([A-Za-z_]\w*)\s*\(")
_C_OPS = {"<": "Lt", ">": "Gt", "<=": "LtE", ">=": "GtE", "==": "Eq", "!=": "NotEq"}


def _c_consts(s: str) -> list[str]:
    return sorted({repr(abs(float(t))) for t in _C_NUM.findall(s)})


def _c_ops(s: str) -> list[str]:
    ops = {_C_OPS[o] for o in re.findall(r"[<>]=?|[!=]=", s)}
    if re.search(r"!(?!=)", s):
        ops.add("Not")
    return sorted(ops)


def _c_facts(s: str) -> dict:
    calls = set(_C_CALL.findall(s))
    if "?" in s:
        calls.add("where")
    return {"uses": _c_idents(s), "consts": _c_consts(s), "ops": _c_ops(s), "calls": sorted(calls)}


def _c_guard(val: str) -> dict:
    """Outermost (cond) ? (a) : (b) of a stored C expression."""
    q = val.find("?")
    if q < 0:
        return dict(NO_GUARD)
    try:
        j = q - 1
        while val[j] == " ":
            j -= 1
        assert val[j] == ")"
        depth, i = 0, j
        while True:
            depth += {")": 1, "(": -1}.get(val[i], 0)
            if depth == 0:
                break
            i -= 1
        cond = val[i + 1:j]
        a0 = val.index("(", q)
        a1 = _match_fwd(val, a0)
        c = val.index(":", a1)
        b0 = val.index("(", c)
        b1 = _match_fwd(val, b0)
    except (AssertionError, ValueError, IndexError):
        # a selection the tokenizer cannot take apart: nothing is claimed about it
        return {"present": True, "cond_uses": ["?"], "consts": [], "ops": ["?"], "then_uses": [], "else_uses": []}
    return {"present": True, "cond_uses": _c_idents(cond), "consts": _c_consts(cond), "ops": _c_ops(cond),
            "then_uses": _c_idents(val[a0:a1 + 1]), "else_uses": _c_idents(val[b0:b1 + 1])}


def c_functions(code: str) -> dict[str, dict]:
    code = re.sub(r"//[^\n]*", "", code)
    code = re.sub(r"/\*.*?\*/", "", code, flags=re.S)
    out = {}
    for m in _C_FN.finditer(code):
        name, args = m.group(1), m.group(2)
        # body up to the matching brace
        depth, i = 1, m.end()
        while i < len(code) and depth:
            depth += {"{": 1, "}": -1}.get(code[i], 0)
            i += 1
        body = code[m.end():i - 1]
        arglist = [a.strip() for a in args.split(",") if a.strip()]
        argnames = [a.split()[-1].lstrip("*") for a in arglist]
        # the output array: the pointer argument that is not const
        outs = [a.split()[-1].lstrip("*") for a in arglist if "*" in a and "const" not in a.split()]
        out_name = outs[0] if len(outs) == 1 else None
        stmts = []
        for raw in body.split(";"):
            s = " ".join(raw.split())
            if not s:
                continue
            if "{" in s or "}" in s:
                stmts.append({"k": "other", "uses": _c_idents(s), "src": s[:80]})
                continue
            mm = re.fullmatch(r"(?:const\s+)?double\s+(\w+)\s*=\s*(states|parameters|missing_variables)\[(\d+)\]", s)
            if mm:
                stmts.append({"k": UNPACKED[mm.group(2)], "name": mm.group(1), "slot": int(mm.group(3)), "decl": True})
                continue
            mm = re.fullmatch(r"(\w+)\[(\d+)\]\s*=\s*(.*)", s)
            if mm and mm.group(1) == out_name:
                stmts.append({"k": "store", "array": mm.group(1), "slot": int(mm.group(2)), **_c_facts(mm.group(3)),
                              "guard": _c_guard(mm.group(3))})
                continue
            mm = re.fullmatch(r"(?:const\s+)?(?:double|int|long|float)\s+(\w+)\s*=\s*(.*)", s)
            if mm:
                stmts.append({"k": "def", "name": mm.group(1), **_c_facts(mm.group(2)), "decl": True})
                continue
            mm = re.fullmatch(r"(\w+)\s*=\s*(.*)", s)
            if mm:
                stmts.append({"k": "def", "name": mm.group(1), **_c_facts(mm.group(2)), "decl": False})
                continue
            stmts.append({"k": "other", "uses": _c_idents(s), "src": s[:80]})
        stmts.append({"k": "return", "nret": -1, "rets": [], "rets_ok": True, "uses": []})
        out[name] = {"args": argnames, "stmts": stmts, "raw_args": args}
    return out


def functions(code: str, generator: str) -> dict[str, dict]:
    if generator.startswith("C"):
        return c_functions(code)
    return python_functions(code)
