"""Statement skeletons of generated code (the projection compared with the specification).

From the emitted text of one function the skeleton is the sequence of
  {"k": "unpackS"|"unpackP"|"unpackM", "name", "slot"}
  {"k": "alloc", "name", "uses"}
  {"k": "def", "name", "uses"}
  {"k": "store", "slot", "uses"}
  {"k": "return", "nret"}            nret = number of returned entries when it is syntactically visible, else -1
Only assignment structure is read (Python: the `ast` module; C: a statement tokenizer); no text is
compared with expected text.
"""
from __future__ import annotations

import ast
import re

MODULE_NAMES = {"numpy", "math", "jax", "True", "False", "None", "len"}


def _uses(node) -> list[str]:
    out = set()
    for n in ast.walk(node):
        if isinstance(n, ast.Name) and isinstance(n.ctx, ast.Load) and n.id not in MODULE_NAMES:
            out.add(n.id)
    return sorted(out)


def python_functions(code: str) -> dict[str, list[dict]]:
    tree = ast.parse(code)
    out = {}
    for fn in tree.body:
        if isinstance(fn, ast.FunctionDef):
            out[fn.name] = {"args": [a.arg for a in fn.args.args], "stmts": _py_body(fn)}
    return out


def _py_body(fn: ast.FunctionDef) -> list[dict]:
    stmts = []
    for st in fn.body:
        if isinstance(st, ast.Expr) and isinstance(st.value, ast.Constant):
            continue  # docstring
        if isinstance(st, ast.Return):
            nret = -1
            v = st.value
            if isinstance(v, ast.Call) and v.args and isinstance(v.args[0], (ast.List, ast.Tuple)):
                nret = len(v.args[0].elts)
            rets = []
            if nret >= 0:
                rets = [e.id if isinstance(e, ast.Name) else "?" for e in v.args[0].elts]
            stmts.append({"k": "return", "nret": nret, "rets": rets, "uses": _uses(st.value) if st.value is not None else []})
            continue
        if not isinstance(st, ast.Assign) or len(st.targets) != 1:
            stmts.append({"k": "other", "uses": _uses(st), "src": ast.dump(st)[:80]})
            continue
        tgt, val = st.targets[0], st.value
        if isinstance(tgt, ast.Subscript) and isinstance(tgt.value, ast.Name) and tgt.value.id == "values":
            idx = tgt.slice
            slot = idx.value if isinstance(idx, ast.Constant) else -1
            stmts.append({"k": "store", "slot": slot, "uses": _uses(val)})
            continue
        if isinstance(tgt, ast.Name):
            m = re.fullmatch(r"_values_(\d+)", tgt.id)
            if m:
                stmts.append({"k": "store", "slot": int(m.group(1)), "uses": _uses(val)})
                continue
            if (isinstance(val, ast.Subscript) and isinstance(val.value, ast.Name)
                    and val.value.id in ("states", "parameters", "missing_variables")
                    and isinstance(val.slice, ast.Constant)):
                k = {"states": "unpackS", "parameters": "unpackP", "missing_variables": "unpackM"}[val.value.id]
                stmts.append({"k": k, "name": tgt.id, "slot": val.slice.value})
                continue
            if tgt.id in ("values", "shape"):
                stmts.append({"k": "alloc", "name": tgt.id, "uses": _uses(val)})
                continue
            stmts.append({"k": "def", "name": tgt.id, "uses": _uses(val)})
            continue
        stmts.append({"k": "other", "uses": _uses(st), "src": ast.dump(st)[:80]})
    return stmts


# ------------------------------------------------------------------------------------------------
C_WORDS = {"const", "double", "int", "char", "void", "if", "else", "return", "exp", "pow", "fabs", "floor", "ceil",
           "fmod", "log", "sqrt", "sin", "cos", "tan", "asin", "acos", "atan", "sinh", "cosh", "tanh", "log10", "log2",
           "M_PI", "M_E", "fmax", "fmin", "abs", "strcmp", "NULL", "expm1", "log1p", "cbrt", "hypot", "atan2", "erf"}
_C_FN = re.compile(r"^void\s+(\w+)\s*\(([^)]*)\)\s*\{", re.M)


def _c_idents(s: str) -> list[str]:
    s = re.sub(r"\b\d+\.?\d*(?:[eE][+-]?\d+)?[fFlL]?\b", " ", s)
    return sorted({t for t in re.findall(r"[A-Za-z_]\w*", s) if t not in C_WORDS})


def c_functions(code: str) -> dict[str, dict]:
    code = re.sub(r"//[^\n]*", "", code)
    code = re.sub(r"/\*.*?\*/", "", code, flags=re.S)
    out = {}
    for m in _C_FN.finditer(code):
        name, args = m.group(1), m.group(2)
        # body up to the matching brace
        depth, i = 1, m.end()
        while i < len(code) and depth:
            depth += {"{": 1, "}": -1}.get(code[i], 0)
            i += 1
        body = code[m.end():i - 1]
        stmts = []
        for raw in body.split(";"):
            s = " ".join(raw.split())
            if not s:
                continue
            mm = re.fullmatch(r"(?:const\s+)?double\s+(\w+)\s*=\s*(states|parameters|missing_variables)\[(\d+)\]", s)
            if mm:
                k = {"states": "unpackS", "parameters": "unpackP", "missing_variables": "unpackM"}[mm.group(2)]
                stmts.append({"k": k, "name": mm.group(1), "slot": int(mm.group(3)), "decl": True})
                continue
            mm = re.fullmatch(r"(\w+)\[(\d+)\]\s*=\s*(.*)", s)
            if mm:
                stmts.append({"k": "store", "array": mm.group(1), "slot": int(mm.group(2)), "uses": _c_idents(mm.group(3))})
                continue
            mm = re.fullmatch(r"(const\s+)?double\s+(\w+)\s*=\s*(.*)", s)
            if mm:
                stmts.append({"k": "def", "name": mm.group(2), "uses": _c_idents(mm.group(3)), "decl": True})
                continue
            mm = re.fullmatch(r"(\w+)\s*=\s*(.*)", s)
            if mm:
                stmts.append({"k": "def", "name": mm.group(1), "uses": _c_idents(mm.group(2)), "decl": False})
                continue
            stmts.append({"k": "other", "uses": _c_idents(s), "src": s[:80]})
        stmts.append({"k": "return", "nret": -1, "rets": [], "uses": []})
        argnames = [a.split()[-1].lstrip("*") for a in args.split(",") if a.strip()]
        out[name] = {"args": argnames, "stmts": stmts, "raw_args": args}
    return out


def functions(code: str, generator: str) -> dict[str, dict]:
    if generator.startswith("C"):
        return c_functions(code)
    return python_functions(code)
