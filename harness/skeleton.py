"""Statement skeletons of generated code (the projection compared with the specification).

From the emitted text of one function the skeleton is the sequence of
  {"k": "unpackS"|"unpackP"|"unpackM", "name", "slot"}
  {"k": "alloc", "name", "uses"}
  {"k": "def", "name", "uses"}
  {"k": "store", "slot", "uses"}
  {"k": "return", "nret"}            nret = number of returned entries when it is syntactically visible, else -1
Only assignment structure is read (Python: the `ast` module; C: a statement tokenizer); no text is
compared with expected text.
"""
from __future__ import annotations

import ast
import re

MODULE_NAMES = {"numpy", "math", "jax", "True", "False", "None", "len"}


def _uses(node) -> list[str]:
    out = set()
    for n in ast.walk(node):
        if isinstance(n, ast.Name) and isinstance(n.ctx, ast.Load) and n.id not in MODULE_NAMES:
            out.add(n.id)
    return sorted(out)


NO_GUARD = {"present": False, "cond_uses": [], "consts": [], "strict": False, "then_uses": [], "else_uses": []}


def _py_guard(val) -> dict:
    """Outermost selection in a stored expression: numpy.where(c, a, b) or (a if c else b)."""
    for n in ast.walk(val):  # breadth first: the outermost one is met first
        cond = None
        if isinstance(n, ast.Call) and isinstance(n.func, ast.Attribute) and n.func.attr == "where" and len(n.args) == 3:
            cond, a, b = n.args
        elif isinstance(n, ast.IfExp):
            cond, a, b = n.test, n.body, n.orelse
        if cond is None:
            continue
        consts = sorted({repr(abs(float(c.value))) for c in ast.walk(cond)
                         if isinstance(c, ast.Constant) and isinstance(c.value, (int, float)) and not isinstance(c.value, bool)})
        ops = {type(o).__name__ for c in ast.walk(cond) if isinstance(c, ast.Compare) for o in c.ops}
        return {"present": True, "cond_uses": _uses(cond), "consts": consts, "strict": bool(ops) and ops <= {"Gt", "Lt"},
                "then_uses": _uses(a), "else_uses": _uses(b)}
    return dict(NO_GUARD)


def python_functions(code: str) -> dict[str, list[dict]]:
    tree = ast.parse(code)
    out = {}
    for fn in tree.body:
        if isinstance(fn, ast.FunctionDef):
            out[fn.name] = {"args": [a.arg for a in fn.args.args], "stmts": _py_body(fn)}
    return out


def _py_body(fn: ast.FunctionDef) -> list[dict]:
    stmts = []
    for st in fn.body:
        if isinstance(st, ast.Expr) and isinstance(st.value, ast.Constant):
            continue  # docstring
        if isinstance(st, ast.Return):
            nret = -1
            v = st.value
            if isinstance(v, ast.Call) and v.args and isinstance(v.args[0], (ast.List, ast.Tuple)):
                nret = len(v.args[0].elts)
            rets = []
            if nret >= 0:
                rets = [e.id if isinstance(e, ast.Name) else "?" for e in v.args[0].elts]
            stmts.append({"k": "return", "nret": nret, "rets": rets, "uses": _uses(st.value) if st.value is not None else []})
            continue
        if not isinstance(st, ast.Assign) or len(st.targets) != 1:
            stmts.append({"k": "other", "uses": _uses(st), "src": ast.dump(st)[:80]})
            continue
        tgt, val = st.targets[0], st.value
        if isinstance(tgt, ast.Subscript) and isinstance(tgt.value, ast.Name) and tgt.value.id == "values":
            idx = tgt.slice
            slot = idx.value if isinstance(idx, ast.Constant) else -1
            stmts.append({"k": "store", "slot": slot, "uses": _uses(val), "guard": _py_guard(val)})
            continue
        if isinstance(tgt, ast.Name):
            m = re.fullmatch(r"_values_(\d+)", tgt.id)
            if m:
                stmts.append({"k": "store", "slot": int(m.group(1)), "uses": _uses(val), "guard": _py_guard(val)})
                continue
            if (isinstance(val, ast.Subscript) and isinstance(val.value, ast.Name)
                    and val.value.id in ("states", "parameters", "missing_variables")
                    and isinstance(val.slice, ast.Constant)):
                k = {"states": "unpackS", "parameters": "unpackP", "missing_variables": "unpackM"}[val.value.id]
                stmts.append({"k": k, "name": tgt.id, "slot": val.slice.value})
                continue
            if tgt.id in ("values", "shape"):
                stmts.append({"k": "alloc", "name": tgt.id, "uses": _uses(val)})
                continue
            stmts.append({"k": "def", "name": tgt.id, "uses": _uses(val)})
            continue
        stmts.append({"k": "other", "uses": _uses(st), "src": ast.dump(st)[:80]})
    return stmts


# ------------------------------------------------------------------------------------------------
C_WORDS = {"const", "double", "int", "char", "void", "if", "else", "return", "exp", "pow", "fabs", "floor", "ceil",
           "fmod", "log", "sqrt", "sin", "cos", "tan", "asin", "acos", "atan", "sinh", "cosh", "tanh", "log10", "log2",
           "M_PI", "M_E", "fmax", "fmin", "abs", "strcmp", "NULL", "expm1", "log1p", "cbrt", "hypot", "atan2", "erf"}
_C_FN = re.compile(r"^void\s+(\w+)\s*\(([^)]*)\)\s*\{", re.M)


def _c_idents(s: str) -> list[str]:
    s = re.sub(r"\b\d+\.?\d*(?:[eE][+-]?\d+)?[fFlL]?\b", " ", s)
    return sorted({t for t in re.findall(r"[A-Za-z_]\w*", s) if t not in C_WORDS})


_C_NUM = re.compile(r"(?<![\w.])\d+\.?\d*(?:[eE][+-]?\d+)?")


def _match_fwd(s: str, i: int) -> int:
    """s[i] == '(' -> index of the matching ')'."""
    depth = 0
    for j in range(i, len(s)):
        depth += {"(": 1, ")": -1}.get(s[j], 0)
        if depth == 0:
            return j
    raise ValueError("unbalanced")


def _c_guard(val: str) -> dict:
    """Outermost (cond) ? (a) : (b) of a stored C expression."""
    q = val.find("?")
    if q < 0:
        return dict(NO_GUARD)
    try:
        j = q - 1
        while val[j] == " ":
            j -= 1
        assert val[j] == ")"
        depth, i = 0, j
        while True:
            depth += {")": 1, "(": -1}.get(val[i], 0)
            if depth == 0:
                break
            i -= 1
        cond = val[i + 1:j]
        a0 = val.index("(", q)
        a1 = _match_fwd(val, a0)
        c = val.index(":", a1)
        b0 = val.index("(", c)
        b1 = _match_fwd(val, b0)
    except (AssertionError, ValueError, IndexError):
        return {"present": True, "cond_uses": ["?"], "consts": [], "strict": False, "then_uses": [], "else_uses": []}
    consts = sorted({repr(abs(float(t))) for t in _C_NUM.findall(cond)})
    ops = set(re.findall(r"[<>]=?|[!=]=", cond))
    return {"present": True, "cond_uses": _c_idents(cond), "consts": consts, "strict": bool(ops) and ops <= {">", "<"},
            "then_uses": _c_idents(val[a0:a1 + 1]), "else_uses": _c_idents(val[b0:b1 + 1])}


def c_functions(code: str) -> dict[str, dict]:
    code = re.sub(r"//[^\n]*", "", code)
    code = re.sub(r"/\*.*?\*/", "", code, flags=re.S)
    out = {}
    for m in _C_FN.finditer(code):
        name, args = m.group(1), m.group(2)
        # body up to the matching brace
        depth, i = 1, m.end()
        while i < len(code) and depth:
            depth += {"{": 1, "}": -1}.get(code[i], 0)
            i += 1
        body = code[m.end():i - 1]
        stmts = []
        for raw in body.split(";"):
            s = " ".join(raw.split())
            if not s:
                continue
            mm = re.fullmatch(r"(?:const\s+)?double\s+(\w+)\s*=\s*(states|parameters|missing_variables)\[(\d+)\]", s)
            if mm:
                k = {"states": "unpackS", "parameters": "unpackP", "missing_variables": "unpackM"}[mm.group(2)]
                stmts.append({"k": k, "name": mm.group(1), "slot": int(mm.group(3)), "decl": True})
                continue
            mm = re.fullmatch(r"(\w+)\[(\d+)\]\s*=\s*(.*)", s)
            if mm:
                stmts.append({"k": "store", "array": mm.group(1), "slot": int(mm.group(2)), "uses": _c_idents(mm.group(3)),
                              "guard": _c_guard(mm.group(3))})
                continue
            mm = re.fullmatch(r"(const\s+)?double\s+(\w+)\s*=\s*(.*)", s)
            if mm:
                stmts.append({"k": "def", "name": mm.group(2), "uses": _c_idents(mm.group(3)), "decl": True})
                continue
            mm = re.fullmatch(r"(\w+)\s*=\s*(.*)", s)
            if mm:
                stmts.append({"k": "def", "name": mm.group(1), "uses": _c_idents(mm.group(2)), "decl": False})
                continue
            stmts.append({"k": "other", "uses": _c_idents(s), "src": s[:80]})
        stmts.append({"k": "return", "nret": -1, "rets": [], "uses": []})
        argnames = [a.split()[-1].lstrip("*") for a in args.split(",") if a.strip()]
        out[name] = {"args": argnames, "stmts": stmts, "raw_args": args}
    return out


def functions(code: str, generator: str) -> dict[str, dict]:
    if generator.startswith("C"):
        return c_functions(code)
    return python_functions(code)
