"""C09 histories: sequences of API calls in ONE process; each observation against the same call made alone
in a fresh process (subprocess mode: `python -m harness.sessionapi ref <json calls>`)."""
from __future__ import annotations

import hashlib
import json
import os
import subprocess
import sys
import tempfile

M = {
    "m1": 'states("A", x=1, y=2)\nstates("B", z=0.5)\nparameters("A", a=3, b=0.5)\nparameters("B", c=2)\nexpressions("A")\ni = a*x - y\nu = b*i\ndx_dt = i - b*x\ndy_dt = x*y - a + z\nexpressions("B")\nw = c*z + i\ndz_dt = -w\n',
    "m2": 'states("A", x=2, y=1)\nstates("B", z=1.5)\nparameters("A", a=1, b=2.5)\nparameters("B", c=4)\nexpressions("A")\ni = b*y + x\nu = a + i\ndx_dt = -i\ndy_dt = x - a*y\nexpressions("B")\nw = z/c\ndz_dt = w - i\n',
    "m3": 'i = a*x - y\nu = b*i\ndx_dt = i - b*x\ndy_dt = x*y - a\nstates(x=1, y=2)\nparameters(a=3, b=0.5)\nstates("B", z=0.5)\nparameters("B", c=2)\nexpressions("B")\nw = c*z + i\ndz_dt = -w\n',
}


def sha(s):
    return hashlib.sha1(s.encode()).hexdigest()[:16]


class Proc:
    """The live objects of one process."""

    def __init__(self):
        from . import gx
        self.gx = gx
        self.models = {k: gx.load(v, name=k) for k, v in M.items()}
        # argument objects the client keeps and passes again (the same dict / list objects on every call)
        self.args = {}

    def do(self, c):
        gx = self.gx
        if c["op"] == "code":
            ode = self.models[c["m"]]
            sch = ["explicit_euler", "generalized_rush_larsen"] if c["sch"] else []
            code = gx.numpy_code(ode, sch, remove_unused=c["ru"]) if c["be"] == "numpy" else gx.c_code(ode, sch, remove_unused=c["ru"])
            return sha(code)
        if c["op"] == "reload":
            from gotranx.load import load_ode
            d = tempfile.mkdtemp(prefix="sess-")
            try:
                self.models[c["m"]].save(os.path.join(d, c["m"] + ".ode"))
                self.models[c["m"]] = load_ode(os.path.join(d, c["m"] + ".ode"))
            finally:
                import shutil
                shutil.rmtree(d, ignore_errors=True)
            return None
        if c["op"] == "load":
            from gotranx.load import ode_from_string
            ode = self.models[c["m"]] = ode_from_string(M[c["m"]], name=c["m"])
            member = sorted((a.name, comp.name) for comp in ode.components
                            for a in list(comp.states) + list(comp.parameters) + list(comp.assignments))
            return sha(json.dumps(member) + gx.numpy_code(ode, []))
        if c["op"] == "split":
            ode = self.models[c["m"]]
            comp = ode.get_component("B")
            sub = comp.to_ode()
            rest = ode - comp
            a = self.args.setdefault(c["m"], {"to_sub": dict(sub.missing_variables), "to_rest": dict(rest.missing_variables),
                                              "stiff_sub": ["z"], "stiff_rest": ["x"]})
            sch = ["explicit_euler", "hybrid_rush_larsen"]
            code = gx.numpy_code(sub, sch, missing_values=a["to_rest"], stiff_states=a["stiff_sub"]) \
                + gx.numpy_code(rest, sch, missing_values=a["to_sub"], stiff_states=a["stiff_rest"])
            return sha(code)
        raise ValueError(c)


def key(c):
    return json.dumps(c, sort_keys=True)


def reference(calls, reload_first=False):
    """Each call alone in a fresh process (after an optional reload, whose effect on the text is part of the call's meaning)."""
    env = dict(os.environ)
    out = {}
    for c in calls:
        p = subprocess.run([sys.executable, "-m", "harness.sessionapi", "ref", json.dumps(c), "1" if reload_first else "0"],
                           capture_output=True, text=True, env=env, cwd=os.path.dirname(os.path.dirname(os.path.abspath(__file__))))
        out[key(c)] = p.stdout.strip().splitlines()[-1] if p.stdout.strip() else "ERR:" + p.stderr[-200:]
    return out


def replay(hists):
    """Returns list of mismatches."""
    proc_calls = {}
    for h in hists:
        for c in h["hist"]:
            if c["op"] in ("code", "split", "load"):
                proc_calls[key(c)] = c
    import concurrent.futures as cf
    calls = list(proc_calls.values())
    with cf.ThreadPoolExecutor(16) as ex:
        plain = list(ex.map(lambda c: reference([c], False), calls))
        after = list(ex.map(lambda c: reference([c], True), calls))
    ref_plain, ref_after = {}, {}
    for d in plain:
        ref_plain.update(d)
    for d in after:
        ref_after.update(d)
    bad = []
    n = 0
    for h in hists:
        p = Proc()
        reloaded = set()
        for i, c in enumerate(h["hist"]):
            got = p.do(c)
            if c["op"] == "reload":
                reloaded.add(c["m"])
            if c["op"] == "load":
                reloaded.discard(c["m"])
            if c["op"] in ("code", "split", "load"):
                n += 1
                want = (ref_after if c["m"] in reloaded else ref_plain)[key(c)]
                if got != want:
                    bad.append({"history": h["hist"], "position": i, "call": c, "got": got, "fresh_process": want})
    return n, bad


if __name__ == "__main__" and len(sys.argv) > 2 and sys.argv[1] == "ref":
    c = json.loads(sys.argv[2])
    pr = Proc()
    if sys.argv[3] == "1":
        pr.do({"op": "reload", "m": c["m"]})
    print(pr.do(c))
