"""C16 replay: remove_singularities on catalogue expressions; values on and off the singular points."""
from __future__ import annotations

import concurrent.futures as cf
import re
import time

from . import resid, tlc
from .modelcase import qf

_KEY = re.compile(r"<<(\d+), (\d+)>>")


def build_model(group):
    n = len(group)
    lines = ["states(x=1, y=1, " + ", ".join(f"s{j}=0" for j in range(n)) + ")", "parameters(a=3)"]
    for j, r in enumerate(group):
        if r.get("via"):
            # the singular argument goes through the intermediate w<j> (depends on a state)
            lines += [f"w{j} = {' '.join(r['via_w'])}", f"k{j} = 2 * w{j}", f"ds{j}_dt = {' '.join(f'w{j}' if t == 'w' else t for t in r['via_body'])}"]
        else:
            # the same name, this time an intermediate of parameters only (never the singular variable)
            # (k<j> reads it, so the library has to classify it)
            lines += [f"w{j} = a - 2", f"k{j} = 2 * w{j}", f"ds{j}_dt = {' '.join(r['toks'])}"]
    lines += ["dx_dt = 0", "dy_dt = 0"]
    return "\n".join(lines) + "\n"


def _run(group, aval):
    from . import gx
    import numpy as np
    ode = gx.load(build_model(group))
    ode2 = ode.remove_singularities()
    ns = gx.exec_module(gx.numpy_code(ode2))
    ns0 = gx.exec_module(gx.numpy_code(ode))
    n = len(group)
    out = {j: {} for j in range(n)}
    orig = {j: {} for j in range(n)}
    for key, g in group[0]["grid"].items():
        for mod, dst in ((ns, out), (ns0, orig)):
            s = np.zeros(n + 2)
            s[mod["state_index"]("x")] = qf(g["x"])
            s[mod["state_index"]("y")] = qf(g["y"])
            p = np.array([aval])
            with gx.quiet_np():
                v = mod["rhs"](0.0, s, p)
            for j in range(n):
                dst[j][key] = float(v[mod["state_index"](f"s{j}")])
    changed = {j: (ode2[f"ds{j}_dt"].expr != ode[f"ds{j}_dt"].expr) for j in range(n)}
    return out, orig, changed


def _worker(args):
    group, aval = args
    res = {"values": {}, "orig": {}, "changed": {}, "errors": [], "secs": 0}
    t0 = time.time()

    import signal

    def on_alarm(*a):
        raise TimeoutError("remove_singularities / generation did not finish in time")

    signal.signal(signal.SIGALRM, on_alarm)

    def split(ix):
        if not ix:
            return
        try:
            signal.alarm(30 * len(ix) + 10)
            try:
                out, orig, changed = _run([group[i] for i in ix], aval)
            finally:
                signal.alarm(0)
            for k, i in enumerate(ix):
                res["values"][i] = out[k]
                res["orig"][i] = orig[k]
                res["changed"][i] = changed[k]
        except Exception as ex:  # noqa: BLE001
            if len(ix) == 1:
                res["errors"].append((ix[0], type(ex).__name__, str(ex)[:300]))
            else:
                h = len(ix) // 2
                split(ix[:h])
                split(ix[h:])

    split(list(range(len(group))))
    res["secs"] = time.time() - t0
    return res


def replay(recs, header, nproc=16, batch=1):
    aval = qf(header["a"])
    recs = sorted(recs, key=lambda r: " ".join(r["toks"]))
    # every expression whose removable nodes share one argument is run a second time with that argument routed
    # through an intermediate (interleaved with the plain form: one process sees the name in both roles)
    recs = [x for r in recs for x in ([r, dict(r, via=True)] if r.get("via_ok") else [r])]
    groups = [recs[i:i + batch] for i in range(0, len(recs), batch)]
    stats = {"expressions": len(recs), "through_an_intermediate": sum(1 for r in recs if r.get("via")), "models": len(groups), "compared_on_singular": 0, "compared_off_singular": 0,
             "undefined": 0, "errors": 0, "mismatches": 0, "untouched_checked": 0, "max_model_secs": 0.0}
    bad = []
    with cf.ProcessPoolExecutor(max_workers=nproc) as ex:
        for g, out in zip(groups, ex.map(_worker, [(g, aval) for g in groups])):
            stats["max_model_secs"] = max(stats["max_model_secs"], round(out["secs"], 1))
            for (i, en, msg) in out["errors"]:
                stats["errors"] += 1
                bad.append({"kind": "error", "via": bool(g[i].get("via")), "text": " ".join(g[i]["toks"]), "nsing": g[i]["nsing"], "exception": en, "message": msg})
            for i, vals in out["values"].items():
                r = g[int(i)]
                if not r["removable"]:
                    stats["untouched_checked"] += 1
                    if out["changed"][i]:
                        bad.append({"kind": "touched", "via": bool(r.get("via")), "text": " ".join(r["toks"]), "nsing": r["nsing"]})
                for key, gp in r["grid"].items():
                    v = gp["ref"]
                    if v["k"] == "u":
                        stats["undefined"] += 1
                        continue
                    try:
                        want, mag = resid.value(v)
                    except resid.Undefined:
                        stats["undefined"] += 1
                        continue
                    stats["compared_on_singular" if gp["on_singular"] else "compared_off_singular"] += 1
                    if not resid.close(vals[key], want, mag):
                        stats["mismatches"] += 1
                        bad.append({"kind": "value", "via": bool(r.get("via")), "text": " ".join(r["toks"]), "nsing": r["nsing"], "on_singular": gp["on_singular"],
                                    "x": resid.fmt(gp["x"]), "y": resid.fmt(gp["y"]), "got": vals[key], "want": float(want),
                                    "original_model_gives": out["orig"][i][key]})
    return stats, bad
