"""C04: names and slots across every generated function - initial values, keyword overrides,
argument-order options (driven on TLC-generated models; expectations from the specification)."""
from __future__ import annotations

import itertools
import re

from . import modelcase, resid
from .modelcase import qf

RHS_ORDERS = ["".join(p) for p in itertools.permutations("stp")]
SCHEME_ORDERS = ["".join(p) for p in itertools.permutations("stpd")]


def _close(a, b):
    return a == b or abs(a - b) <= 1e-12 * max(1.0, abs(a), abs(b))


def _body(code: str) -> str:
    """Function text without its signature line(s)."""
    i = code.index("):") if "):" in code else code.index("){")
    return code[i + 2:]


def check_layout_case(rec, backend="numpy", orders_sample=None, workdir=None):
    from . import gx
    from gotranx.codegen.python import PythonCodeGenerator, Format as PF
    from gotranx.codegen.jax import JaxCodeGenerator
    from gotranx.codegen.c import CCodeGenerator, Format as CF
    from gotranx.schemes import get_scheme

    bad = []
    stats = {"checks": 0}
    text = modelcase.render_text(rec["blocks"])
    ctx = {"text": text, "backend": backend}
    ode = gx.load(text)
    snames = [e["name"] for b in rec["blocks"] if b["k"] == "states" for e in b["entries"]]
    pnames = [e["name"] for b in rec["blocks"] if b["k"] == "parameters" for e in b["entries"]]
    defaults = {n: qf(v) for n, v in rec["defaults"].items()}
    mod = modelcase.make_mod("jax" if backend == "jax" else backend, ode, ["explicit_euler"], workdir=workdir)
    try:
        for kind, names, init in (("state", snames, mod.init_states), ("parameter", pnames, mod.init_params)):
            vals = list(init())
            stats["checks"] += 1
            if len(vals) != len(names):
                bad.append({"tag": "init-length", "kind": kind, "got": len(vals), "want": len(names), **ctx})
                continue
            for n in names:
                if not _close(float(vals[mod.index(kind, n)]), defaults[n]):
                    bad.append({"tag": "init-slot", "kind": kind, "name": n, "slot": mod.index(kind, n),
                                "got": float(vals[mod.index(kind, n)]), "want": defaults[n], **ctx})
            if backend != "c":
                # keyword override lands in exactly index(name) and nowhere else
                for n in names:
                    ov = list(init(**{n: 7.25}))
                    stats["checks"] += 1
                    for m in names:
                        want = 7.25 if m == n else defaults[m]
                        if not _close(float(ov[mod.index(kind, m)]), want):
                            bad.append({"tag": "init-override", "kind": kind, "override": n, "name": m,
                                        "got": float(ov[mod.index(kind, m)]), "want": want, **ctx})
        if backend == "c":
            if mod.n_states != len(snames) or mod.n_params != len(pnames):
                bad.append({"tag": "counts", "NUM_STATES": mod.n_states, "NUM_PARAMS": mod.n_params, **ctx})
            anames = [e["name"] for b in rec["blocks"] if b["k"] == "expressions" for e in b["entries"]]
            if mod.n_monitored != len(anames):
                bad.append({"tag": "counts", "NUM_MONITORED": mod.n_monitored, "want": len(anames), **ctx})
        # argument orders: same body, permuted formals, same numbers
        inp = rec["cases"][0]["input"]
        s = [0.0] * len(snames)
        p = [0.0] * len(pnames)
        for n in snames:
            s[mod.index("state", n)] = qf(inp["states"][n])
        for n in pnames:
            p[mod.index("parameter", n)] = qf(inp["params"][n])
        t, dt = qf(inp["t"]), qf(inp["dt"])
        ref_rhs, _ = mod.call("rhs", t, s, p)
        ref_eu, _ = mod.call("explicit_euler", t, s, p, dt)
        if backend in ("numpy", "jax"):
            Gen = PythonCodeGenerator if backend == "numpy" else JaxCodeGenerator
            cg = Gen(ode, format=PF.none)
            import numpy as np
            argmap = {"s": np.array(s), "t": t, "p": np.array(p), "d": dt}
            base_body = {}
            for fn, orders, ref in (("rhs", RHS_ORDERS, ref_rhs), ("explicit_euler", SCHEME_ORDERS, ref_eu)):
                sel = orders if orders_sample is None else orders_sample(fn, orders)
                for o in sel:
                    code = cg.rhs(order=o) if fn == "rhs" else cg.scheme(get_scheme("explicit_euler"), order=o)
                    stats["checks"] += 1
                    ns = {}
                    exec(cg.imports() + "\n" + code, ns)
                    m = re.search(r"def (\w+)\(([^)]*)\)", code)
                    formals = [a.strip() for a in m.group(2).split(",")]
                    want_formals = [{"s": "states", "t": "t", "p": "parameters", "d": "dt"}[c] for c in o]
                    if formals != want_formals:
                        bad.append({"tag": "arg-order", "fn": fn, "order": o, "formals": formals, **ctx})
                        continue
                    if backend == "jax":
                        import jax
                        with jax.disable_jit():
                            out = ns[m.group(1)](*[argmap[c] for c in o])
                    else:
                        with gx.quiet_np():
                            out = ns[m.group(1)](*[argmap[c] for c in o])
                    out = [float(x) for x in np.asarray(out).ravel()]
                    if len(out) != len(ref) or not all(_close(a, b) or (a != a and b != b) for a, b in zip(out, ref)):
                        bad.append({"tag": "arg-order-values", "fn": fn, "order": o, "got": out, "want": ref, **ctx})
                    b = _body(code)
                    base_body.setdefault(fn, b)
                    if b != base_body[fn]:
                        bad.append({"tag": "arg-order-body", "fn": fn, "order": o, **ctx})
    finally:
        mod.close()
    return stats, bad


def _worker(args):
    rec, backend, seed, workdir = args
    import random
    rnd = random.Random(seed)

    def sample(fn, orders):
        k = 6 if fn == "rhs" else 6
        return rnd.sample(orders, min(k, len(orders)))

    try:
        return check_layout_case(rec, backend, orders_sample=sample, workdir=workdir)
    except Exception as ex:  # noqa: BLE001
        import traceback
        return {"checks": 0}, [{"tag": "harness", "exception": type(ex).__name__, "message": traceback.format_exc()[-500:],
                                "text": modelcase.render_text(rec["blocks"]), "backend": backend}]


def replay(recs, backend, nproc=16, seed=0, workdir=None):
    import concurrent.futures as cf
    total = {"models": len(recs), "checks": 0}
    bad = []
    with cf.ProcessPoolExecutor(max_workers=nproc) as ex:
        for st, b in ex.map(_worker, [(r, backend, seed + i, workdir) for i, r in enumerate(recs)], chunksize=2):
            total["checks"] += st["checks"]
            bad.extend(b)
    return total, bad
