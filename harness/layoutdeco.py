"""C17 replay: decorated model texts (comments, blank lines, indentation, CRLF, continuation, annotations)."""
from __future__ import annotations

import concurrent.futures as cf
import multiprocessing as mp

from . import modelcase

STRINGS = [
    "a comment", "mV", "ms**-1", "pA*pF**-1", "1/0", "9**9**9", "x = 3", "states(q=1)", "parameters(p=5)", "'", '"',
    "it's", "(", ")", "[1]", "{}", "µV ≠ Ω", "#", "## double", "dx_dt = 0", "expressions(\"Z\")", "1", "0", "meter",
    "second", "-", "**", "a = b = c", "ScalarParam(1)", "Conditional(Lt(x, 1), 1, 0)",
    # text that LOOKS like a unit expression but that the unit registry treats specially
    "1/degC", "degC*ms", "dB/ms", "degF**2", "1/ms/degC", "pH*mV",
    # ordinary prose: long runs of words and then punctuation a unit expression cannot contain
    "maximal conductance times the open probability of the fast sodium current (uA/uF)",
    "see Beeler and Reuter 1977, equation 12 of the original paper.",
    # characters that some notion of "line" treats as a line break although the language does not (only \n ends a
    # comment): form feed, vertical tab, NEL, LINE SEPARATOR, a lone carriage return, file separator
    "page\x0cbreak then prose", "nel\x85expressions(\"Z\")", "ls\u2028dx_dt = 0", "cr\rstates(q=1)", "vt\x0bfs\x1cx = 3",
]


def lines_of(blocks):
    """(kind, text, block index) for every line of the plain rendering."""
    out = []
    for bi, b in enumerate(blocks):
        comp = b["comp"]
        if b["k"] in ("states", "parameters"):
            head = f'{b["k"]}("{comp}", ' if comp else f'{b["k"]}('
            out.append(("decl", head + ", ".join(modelcase._decl(e) for e in b["entries"]) + ")", bi))
        else:
            if comp:
                out.append(("xheader", f'expressions("{comp}")', bi))
            for e in b["entries"]:
                out.append(("assign", f'{e["name"]} = {" ".join(e["toks"])}', bi))
    return out


def render_decorated(rec):
    d = rec["deco"]
    place, k = d["place"], d["str"]
    s = STRINGS[(k - 1) % len(STRINGS)] if k else ""
    ls = lines_of(rec["blocks"])
    eol = "\n"
    texts = [t for _, t, _ in ls]
    assigns = [i for i, l in enumerate(ls) if l[0] == "assign"]
    xheaders = [i for i, l in enumerate(ls) if l[0] == "xheader"]
    if place == "header":
        texts = [f"# {s}"] + texts
    elif place == "end-of-file":
        texts = texts + [f"# {s}"]
    elif place == "between-blocks":
        cut = [i for i in range(1, len(ls)) if ls[i][2] != ls[i - 1][2]]
        i = cut[k % len(cut)] if cut else 0
        texts = texts[:i] + [f"# {s}"] + texts[i:]
    elif place == "after-expressions-header":
        if xheaders:
            i = xheaders[k % len(xheaders)] + 1
        else:
            i = assigns[0]
        texts = texts[:i] + [f"# {s}"] + texts[i:]
    elif place in ("inside-expressions", "two-comments", "blank-inside-expressions"):
        inner = [i for i in assigns if i - 1 in assigns] or assigns
        i = inner[k % len(inner)]
        ins = {"inside-expressions": [f"# {s}"], "two-comments": [f"# {s}", "# second line"], "blank-inside-expressions": ["", ""]}[place]
        texts = texts[:i] + ins + texts[i:]
    elif place == "after-header-and-inside":
        # a comment directly below a block header and a second one further down in the SAME block
        if xheaders:
            h = xheaders[k % len(xheaders)]
            blk = [i for i in assigns if ls[i][2] == ls[h][2]]
        else:
            h, blk = None, assigns
        later = [i for i in blk if i - 1 in blk] or blk
        j = later[k % len(later)]
        texts = texts[:j] + [f"# {s}"] + texts[j:]
        first = (h + 1) if h is not None else blk[0]
        texts = texts[:first] + ["# directly below the header"] + texts[first:]
    elif place == "header-and-trailing":
        i = assigns[k % len(assigns)]
        texts[i] = texts[i] + f" # {s}"
        texts = [f"# {s}"] + texts
    elif place == "trailing":
        i = assigns[k % len(assigns)]
        texts[i] = texts[i] + f" # {s}"
    elif place == "indent":
        texts = ["    " + t if j in assigns else t for j, t in enumerate(texts)]
    elif place == "tabs":
        texts = [t.replace(" = ", "\t=\t") if j in assigns else t for j, t in enumerate(texts)]
    elif place == "crlf":
        eol = "\r\n"
    elif place == "trailing-spaces":
        texts = [t + "   " for t in texts]
    elif place == "continuation":
        # newline after a binary operator inside an expression
        new = []
        for j, t in enumerate(texts):
            if j in assigns:
                for op in (" + ", " - ", " * ", " / "):
                    pos = t.find(op, t.index("=") + 1)
                    if pos > 0 and not t[pos + 3:].lstrip().startswith(("-", "+")):
                        t = t[:pos + 2] + "\n      " + t[pos + 3:]
                        break
            new.append(t)
        texts = new
    elif place in ("comment-every-line", "blank-every-line"):
        ins = f"# {s}" if place == "comment-every-line" else ""
        texts = [x for t in texts for x in (t, ins)]
    elif place == "comment-every-assignment":
        texts = [x for j, t in enumerate(texts) for x in ((t, f"# {s}") if j in assigns else (t,))]
    elif place == "inside-declaration":
        # every states / parameters block over several lines, a comment after an entry and a comment line between entries
        new = []
        for j, (kind, t, bi) in enumerate(ls):
            if kind == "decl":
                b = rec["blocks"][bi]
                head = f'{b["k"]}("{b["comp"]}",' if b["comp"] else f'{b["k"]}('
                ents = [modelcase._decl(e) for e in b["entries"]]
                body = []
                for n, e in enumerate(ents):
                    last = n == len(ents) - 1
                    body.append(f"    {e}{'' if last else ','} # {s}" if (n + k) % 2 == 0 else f"    {e}{'' if last else ','}")
                    if not last and (n + k) % 3 == 0:
                        body.append(f"    # {s}")
                new.extend([head, f"    # {s}"] + body + [")"])
            else:
                new.append(texts[j])
        texts = new
    elif place == "inside-header":
        new = []
        for j, (kind, t, bi) in enumerate(ls):
            if kind == "xheader":
                new.extend([t[:-1] + f" # {s}", ")"])
            elif kind == "decl" and rec["blocks"][bi]["comp"]:
                cut = t.index(",") + 1
                new.extend([t[:cut] + f" # {s}", "   " + t[cut:]])
            else:
                new.append(texts[j])
        texts = new
    elif place in ("comment-in-continuation", "comment-in-parentheses"):
        new, done = [], 0
        for j, t in enumerate(texts):
            if j in assigns:
                marks = (" + ", " - ", " * ", " / ") if place == "comment-in-continuation" else ("( ", "(")
                for op in marks:
                    pos = t.find(op, t.index("=") + 1)
                    if pos > 0 and (done + k) % 2 == 0:
                        cut = pos + len(op.rstrip())
                        t = t[:cut] + f" # {s}\n      " + t[cut:]
                        break
                done += 1
            new.append(t)
        texts = new
    elif place == "unit-annotation":
        texts = [t + " # mV" if j in assigns else t for j, t in enumerate(texts)]
    text = eol.join(texts)
    if place != "no-final-newline":
        text += eol
    return text


def _child(rec, conn):
    try:
        from . import gx
        text = render_decorated(rec)
        plain = modelcase.render_text(rec["blocks"])
        res = {"text": text, "problems": []}
        ode0 = gx.load(plain)
        try:
            ode = gx.load(text)
        except Exception as ex:  # noqa: BLE001
            res["problems"].append({"kind": "load-error", "message": f"{type(ex).__name__}: {str(ex)[:160]}"})
            conn.send(res)
            return
        comp = {a.name: sorted(a.components) for c in ode.components for a in (list(c.states) + list(c.parameters) + list(c.assignments))}
        comp0 = {a.name: sorted(a.components) for c in ode0.components for a in (list(c.states) + list(c.parameters) + list(c.assignments))}
        if comp != comp0:
            diff = {n: [comp0.get(n), comp.get(n)] for n in set(comp) | set(comp0) if comp.get(n) != comp0.get(n)}
            res["problems"].append({"kind": "component-membership", "diff": diff})
        c0 = gx.numpy_code(ode0, ["explicit_euler"])
        c1 = gx.numpy_code(ode, ["explicit_euler"])
        ns0, ns1 = gx.exec_module(c0), gx.exec_module(c1)
        for k in ("state", "parameter", "monitor"):
            if ns0[k] != ns1[k]:
                res["problems"].append({"kind": "layout", "index": k, "plain": ns0[k], "decorated": ns1[k]})
        stats, bad = modelcase.check_model_case(rec, "numpy", remove_unused=(False,), schemes=["explicit_euler"], _ode=ode)
        for b in bad:
            res["problems"].append({"kind": "numerics", "fn": b.get("fn"), "name": b.get("name"), "got": b.get("got"), "want": b.get("want"),
                                    "exception": b.get("exception")})
        res["compared"] = stats["compared"]
        conn.send(res)
    except Exception as ex:  # noqa: BLE001
        import traceback
        conn.send({"text": "", "problems": [{"kind": "harness", "message": traceback.format_exc()[-400:]}]})


def _worker(rec):
    ctx = mp.get_context("fork")
    a, b = ctx.Pipe(duplex=False)
    p = ctx.Process(target=_child, args=(rec, b))
    p.start()
    b.close()
    res = None
    if a.poll(40):
        try:
            res = a.recv()
        except EOFError:
            res = {"text": render_decorated(rec), "problems": [{"kind": "crash", "message": "child process died"}]}
    else:
        res = {"text": render_decorated(rec), "problems": [{"kind": "hang", "message": "loading did not finish within 40 s"}]}
    if p.is_alive():
        p.kill()
    p.join()
    res["deco"] = rec["deco"]
    res["string"] = STRINGS[(rec["deco"]["str"] - 1) % len(STRINGS)] if rec["deco"]["str"] else ""
    return res


def replay(recs, nproc=16):
    from . import gx  # noqa: F401  imported once here: the forked children inherit it instead of importing it each
    import pint  # noqa: F401
    with cf.ThreadPoolExecutor(max_workers=nproc) as ex:
        return list(ex.map(_worker, recs))
