"""File-level token strings (spec/MC_File.tla, spec/OdeFile.tla) replayed through the real loader.

Each token string is written as text in two ways - on one line (only a comment ends a line) and with every
token on its own line - plus once more with all its comments removed.  Verdicts (what the properties fix):

  C17  the two writings give the same verdict and the same model (a newline is white space);
       where the specification accepts the string (every comment stands where the language gives it a place),
       the text with comments and the text without them give the same verdict, the same component membership
       and the same numbers;
  C08  what the real loader accepts is well formed (the specification's model of the string);
  C01/C04  a loaded model computes the specification's values by name.

Conformance notes (bind OdeFile.tla to ode.lark, no property fixes them): the loader rejects a string the
specification accepts or accepts one the specification's grammar rejects; exception classes.
"""
from __future__ import annotations

import concurrent.futures as cf

from . import modelcase


def tok_text(t: str) -> str:
    if t.startswith("$"):
        return '"' + t[1:] + '"'
    if t.startswith("#"):
        return "# " + t[1:]
    return t


CONTINUES = {"+", "-", "*", "/", "**"}


def render(tokens, one_line: bool) -> str:
    """one_line: only a comment ends a line.  Otherwise every token stands on its own line - except that outside
    parentheses an operator is not moved to the line after its left operand (OdeFile.tla: there a line break ends
    the assignment, as in Python)."""
    out, depth = [], 0
    for i, t in enumerate(tokens):
        s = tok_text(t)
        depth += (t == "(") - (t == ")")
        nxt = tokens[i + 1] if i + 1 < len(tokens) else ""
        if t.startswith("#"):
            out.append(s + "\n")
        elif one_line or (depth <= 0 and nxt in CONTINUES):
            out.append(s + " ")
        else:
            out.append(s + "\n")
    return "".join(out).rstrip(" ") + ("\n" if one_line else "")


def _load(gx, text):
    try:
        ode = gx.ode_from_string(text, name="m")     # (not gx.load: thousands of texts, most of them syntax errors)
    except Exception as ex:  # noqa: BLE001
        return None, type(ex).__name__
    try:
        gx.numpy_code(ode, ["explicit_euler"])
    except Exception as ex:  # noqa: BLE001
        return None, "generate:" + type(ex).__name__
    return ode, "ok"


def _membership(ode):
    out = set()
    for c in ode.components:
        for kind, atoms in (("state", c.states), ("param", c.parameters), ("assign", c.assignments)):
            for a in atoms:
                out.add((a.name, kind, c.name))
    return out


def _one(rec):
    from . import gx
    toks = rec["toks"]
    res = {"toks": toks, "outcome": rec["outcome"], "problems": [], "notes": [], "compared": 0}
    t_line, t_tok = render(toks, True), render(toks, False)
    stripped = [t for t in toks if not t.startswith("#")]
    ode1, v1 = _load(gx, t_line)
    ode2, v2 = _load(gx, t_tok)
    res["verdict"] = v1
    # C17: a newline is white space
    if (v1 == "ok") != (v2 == "ok"):
        res["problems"].append({"prop": "C17", "kind": "line-structure-verdict", "one_line": v1, "token_per_line": v2, "text": t_line})
    elif v1 == "ok" and _membership(ode1) != _membership(ode2):
        res["problems"].append({"prop": "C17", "kind": "line-structure-model", "text": t_line})
    want_ok = rec["outcome"] == "ok"
    spec_parses = rec["parse"]
    # C17: comments the language gives a place are inert
    if spec_parses and stripped != toks and rec["outcome"] != "no-states":
        ode0, v0 = _load(gx, render(stripped, True))
        if (v0 == "ok") != (v1 == "ok"):
            res["problems"].append({"prop": "C17", "kind": "comments-change-verdict", "with": v1, "without": v0, "text": t_line})
        elif v0 == "ok" and _membership(ode0) != _membership(ode1):
            res["problems"].append({"prop": "C17", "kind": "comments-change-membership", "text": t_line})
    if v1 == "ok":
        if not spec_parses:
            res["notes"].append("code accepts, specification's grammar rejects")
        elif rec["outcome"] == "no-states":
            pass
        elif rec["outcome"] == "DuplicateSymbolError":
            # two definitions of one name that the specification compares as TREES (p = 3 / p = + 3): the property
            # speaks of DIFFERING definitions, and declared values that are equal as numbers do not differ.  Which
            # duplicates are refused is judged by MC_IllFormed, whose duplicates differ in value by construction.
            res["notes"].append("duplicate with another spelling accepted (not judged here)")
        elif not want_ok:
            # C08: accepted although the model the text denotes is ill formed
            res["problems"].append({"prop": "C08", "kind": "accepted-ill-formed", "spec_outcome": rec["outcome"], "text": t_line})
        else:
            have = _membership(ode1)
            want = {(m["name"], m["kind"], m["comp"].lstrip("$")) for m in rec["membership"]}
            if have != want:
                res["problems"].append({"prop": "C17", "kind": "component-membership", "text": t_line,
                                        "diff": sorted(map(list, have ^ want))[:8]})
            # numbers by name
            seen, blocks = set(), []
            for b in rec["blocks"]:
                ents = []
                for e in b["entries"]:     # an identical repetition (in this block or another) is one definition
                    if (b["k"], e["name"]) not in seen:
                        seen.add((b["k"], e["name"]))
                        ents.append(e)
                if ents:
                    blocks.append(dict(b, entries=ents))
            snames = sorted({e["name"] for b in blocks if b["k"] == "states" for e in b["entries"]})
            pnames = sorted({e["name"] for b in blocks if b["k"] == "parameters" for e in b["entries"]})
            q = lambda n, d: {"k": "q", "n": n, "d": d, "ex": True}  # noqa: E731
            inp = {"t": q(1, 2), "dt": q(1, 8), "states": {n: {"x": q(3, 2), "y": q(-1, 4)}[n] for n in snames},
                   "params": {n: q(3, 1) for n in pnames}}
            mrec = {"blocks": blocks, "delta": "0.25", "cases": [{"input": inp, "expect": rec["expect"]}]}
            stats, bad = modelcase.check_model_case(mrec, "numpy", remove_unused=(False,), schemes=[], _ode=ode1)
            res["compared"] = stats["compared"]
            for b in bad:
                res["problems"].append({"prop": "C01", "kind": "numerics:" + str(b.get("tag")), "name": b.get("name"), "got": b.get("got"),
                                        "want": b.get("want"), "message": b.get("message"), "text": t_line})
    else:
        if want_ok:
            res["notes"].append(f"specification accepts, code rejects ({v1})")
        elif spec_parses and rec["outcome"] not in ("no-states",) and not v1.startswith("generate:") and v1 != rec["outcome"] \
                and rec["outcome"] != "syntax":
            res["notes"].append(f"class: specification {rec['outcome']}, code {v1}")
    return res


def replay(recs, nproc=16):
    with cf.ProcessPoolExecutor(max_workers=nproc) as ex:
        return list(ex.map(_one, recs, chunksize=16))


CONSTS = {"NumLex": "<- NumLexDef", "BigToks": "{}", "NameOrder": "<- NameOrderDef", "StrToks": "<- StrToksDef",
          "CommentToks": "<- CommentToksDef"}


def run(chk, pid: str):
    """TLC on MC_File (the file-level grammar: every statement sequence, every single-token mutation of the complete
    models and of a share of the others), then the replay.  `pid` selects the verdicts this check owns."""
    import random
    from . import tlc, core
    quick = chk.tier == "quick"
    consts = dict(CONSTS, MaxItems=3 if quick else 4, MutMod=11 if quick else 23, EmitMutMod=139 if quick else 29, SeedEmitMod=2 if quick else 1)
    cfg = tlc.make_cfg(constants=consts, invariants=["File_CommentsInert", "File_ScopeIsHeader", "File_AcceptedIsWellFormed", "EmitBase", "EmitMut"])
    res = tlc.run_tlc("MC_File", cfg, workers=chk.nproc, timeout=3000, constants_for_summary=consts)
    recs = res.records
    res.records = []
    chk.add_tlc(res)
    if not recs:
        raise core.MachineryFailure("MC_File emitted nothing")
    rnd = random.Random(chk.seed)
    ok = [r for r in recs if r["outcome"] == "ok"]
    rest = [r for r in recs if r["outcome"] != "ok"]
    rnd.shuffle(rest)
    use = ok + rest[: (2000 if quick else 40000)]
    out = replay(use, chk.nproc)
    chk.replayed += len(out)
    notes, kinds, compared = {}, {}, 0
    for o in out:
        compared += o["compared"]
        for n in o["notes"]:
            notes[n.split(" (")[0]] = notes.get(n.split(" (")[0], 0) + 1
        for p in o["problems"]:
            kinds[p["prop"] + ":" + p["kind"]] = kinds.get(p["prop"] + ":" + p["kind"], 0) + 1
            if p["prop"] != pid and not (pid == "C17" and p["prop"] == "C01"):
                continue
            chk.violation(f"{pid}:file:{p['kind']}:{o['outcome']}", {"tokens": o["toks"], **p},
                          f"token string `{' '.join(o['toks'])}` (specification: {o['outcome']}, loader: {o['verdict']}): {p['kind']} "
                          f"{ {k: v for k, v in p.items() if k not in ('prop', 'kind', 'text')} }")
    if not ok:
        raise core.MachineryFailure("MC_File: no complete model among the emitted strings")
    chk.extra["file_level"] = {"strings_checked_by_tlc": res.distinct, "replayed": len(out), "loadable_per_specification": len(ok),
                               "values_compared": compared, "problems_by_kind": kinds, "conformance_notes": notes}
    chk.sample({"tokens": " ".join(ok[0]["toks"]), "text_one_line": render(ok[0]["toks"], True), "text_token_per_line": render(ok[0]["toks"], False)})


def _saveload_one(rec):
    """C11 on a loadable file-level string: load -> save -> load; component membership (also of an atom that belongs
    to several components, whether through one header with two names or through identical declarations in the
    blocks of two components) and the numbers must survive."""
    import os
    import shutil
    import tempfile
    from . import gx
    from gotranx.load import load_ode
    text = render(rec["toks"], True)
    out = {"toks": rec["toks"], "problems": [], "compared": 0}
    try:
        ode = gx.ode_from_string(text, name="m")
    except Exception as ex:  # noqa: BLE001
        out["skipped"] = f"does not load: {type(ex).__name__}"
        return out
    d = tempfile.mkdtemp(prefix="fsl-")
    try:
        ode.save(os.path.join(d, "m.ode"))
        saved = open(os.path.join(d, "m.ode")).read()
        try:
            ode2 = load_ode(os.path.join(d, "m.ode"))
        except Exception as ex:  # noqa: BLE001
            out["problems"].append({"kind": "reload-error", "message": f"{type(ex).__name__}: {str(ex)[:160]}", "saved": saved, "text": text})
            return out
    finally:
        shutil.rmtree(d, ignore_errors=True)
    a, b = _membership(ode), _membership(ode2)
    if a != b:
        out["problems"].append({"kind": "membership", "lost": sorted(map(list, a - b))[:6], "gained": sorted(map(list, b - a))[:6], "saved": saved, "text": text})
        return out
    want = {(m["name"], m["kind"], m["comp"].lstrip("$")) for m in rec["membership"]}
    if b != want:
        out["problems"].append({"kind": "membership-vs-specification", "diff": sorted(map(list, b ^ want))[:8], "text": text})
    try:
        c1, c2 = gx.numpy_code(ode, ["explicit_euler"]), gx.numpy_code(ode2, ["explicit_euler"])
        n1, n2 = gx.exec_module(c1), gx.exec_module(c2)
        import numpy as np
        s = np.array([0.75 + 0.5 * i for i in range(len(n1["state"]))])
        p1 = n1["init_parameter_values"]()
        p2 = n2["init_parameter_values"]()
        for nm, i in n1["state"].items():
            r1 = n1["rhs"](0.5, s, p1)[i]
            s2 = np.array([s[n1["state"][k]] for k in sorted(n2["state"], key=n2["state"].get)])
            r2 = n2["rhs"](0.5, s2, p2)[n2["state"][nm]]
            out["compared"] += 1
            if not (abs(r1 - r2) <= 1e-12 * max(1.0, abs(r1))):
                out["problems"].append({"kind": "rhs", "name": nm, "before": float(r1), "after": float(r2), "saved": saved, "text": text})
    except Exception as ex:  # noqa: BLE001
        out["problems"].append({"kind": "generate-after-reload", "message": f"{type(ex).__name__}: {str(ex)[:160]}", "text": text})
    return out


def run_saveload(chk):
    from . import tlc, core
    consts = dict(CONSTS, MaxItems=2, MutMod=0, EmitMutMod=0, SeedEmitMod=3 if chk.tier == "quick" else 1)
    cfg = tlc.make_cfg(constants=consts, invariants=["File_CommentsInert", "File_ScopeIsHeader", "File_AcceptedIsWellFormed", "EmitBase", "EmitMut"])
    res = tlc.run_tlc("MC_File", cfg, workers=chk.nproc, timeout=1800, constants_for_summary=consts)
    ok = [r for r in res.records if r["outcome"] == "ok"]
    res.records = []
    chk.add_tlc(res)
    if len(ok) < 20:
        raise core.MachineryFailure(f"MC_File: only {len(ok)} loadable strings")
    with cf.ProcessPoolExecutor(max_workers=chk.nproc) as ex:
        out = list(ex.map(_saveload_one, ok, chunksize=4))
    chk.replayed += len(out)
    multi = sum(1 for r in ok if len({m["comp"] for m in r["membership"] if m["name"] in ("p", "y")}) > 1)
    chk.extra["file_level_saveload"] = {"loadable_strings": len(ok), "with_an_atom_in_two_components": multi,
                                        "values_compared": sum(o["compared"] for o in out), "skipped": sum(1 for o in out if "skipped" in o)}
    for o in out:
        for p in o["problems"]:
            chk.violation(f"C11:file:{p['kind']}", {"tokens": o["toks"], **p},
                          f"save/load of `{' '.join(o['toks'])}`: {p['kind']} { {k: v for k, v in p.items() if k not in ('kind', 'text', 'saved')} }")
