"""C11: save -> load on structural model cases: declared atoms and numerics of the reloaded model."""
from __future__ import annotations

import concurrent.futures as cf
import shutil
import tempfile
from pathlib import Path

from . import modelcase


def projection(ode):
    """What C11 says must be preserved (names, kinds, defaults, units, descriptions, components)."""
    def atom(a):
        return {"value": float(a.value) if getattr(a, "value", None) is not None and not hasattr(a.value, "tree") else None,
                "unit": a.unit_str if a.unit_str not in (None, "1") else None, "description": a.description,
                "components": sorted(a.components)}
    return {
        "states": {s.name: atom(s) for s in ode.states},
        "parameters": {p.name: atom(p) for p in ode.parameters},
        "intermediates": {i.name: {"components": sorted(i.components), "unit": i.unit_str if i.unit_str not in (None, "1") else None}
                          for i in ode.intermediates},
        "derivatives": {d.name: {"components": sorted(d.components), "unit": d.unit_str if d.unit_str not in (None, "1") else None}
                        for d in ode.state_derivatives},
    }


def check_saveload_case(rec, workdir=None):
    from . import gx
    from gotranx.load import load_ode

    bad = []
    text = modelcase.render_text(rec["blocks"])
    ctx = {"text": text}
    ode = gx.load(text, name="m")
    d = Path(tempfile.mkdtemp(prefix="sl-", dir=workdir))
    try:
        try:
            ode.save(d / "m.ode")
            saved = (d / "m.ode").read_text()
        except Exception as ex:  # noqa: BLE001
            return {"compared": 0, "undefined": 0, "calls": 0}, [{"tag": "save", "exception": type(ex).__name__, "message": str(ex)[:200], **ctx}]
        try:
            ode2 = load_ode(d / "m.ode")
        except Exception as ex:  # noqa: BLE001
            return {"compared": 0, "undefined": 0, "calls": 0}, [{"tag": "reload", "exception": type(ex).__name__,
                                                                   "message": str(ex)[:200], "saved": saved, **ctx}]
    finally:
        shutil.rmtree(d, ignore_errors=True)
    pa, pb = projection(ode), projection(ode2)
    # what the text declares (from the specification's record)
    for b in rec["blocks"]:
        for e in b["entries"]:
            kind = {"states": "states", "parameters": "parameters"}.get(b["k"])
            if kind and (e.get("unit") or e.get("desc")):
                got = pb[kind].get(e["name"], {})
                if (e.get("unit") or None) != got.get("unit") or (e.get("desc") or None) != got.get("description"):
                    bad.append({"tag": "annotation", "name": e["name"], "declared": {"unit": e.get("unit"), "desc": e.get("desc")},
                                "reloaded": got, "saved": saved, **ctx})
    if pa != pb:
        diff = {k: {n: [pa[k].get(n), pb[k].get(n)] for n in set(pa[k]) | set(pb[k]) if pa[k].get(n) != pb[k].get(n)} for k in pa}
        bad.append({"tag": "atoms", "diff": {k: v for k, v in diff.items() if v}, "saved": saved, **ctx})
    # numerics of the RELOADED model against the specification, by name
    rec2 = dict(rec)
    stats, b2 = modelcase.check_model_case(rec2, "numpy", remove_unused=(False,), _ode=ode2)
    for b in b2:
        b["tag"] = "reloaded-" + b["tag"]
        b["saved"] = saved
    return stats, bad + b2


def _worker(rec):
    try:
        return check_saveload_case(rec)
    except Exception as ex:  # noqa: BLE001
        import traceback
        return {"compared": 0, "undefined": 0, "calls": 0}, [{"tag": "harness", "exception": type(ex).__name__,
                                                               "message": traceback.format_exc()[-500:],
                                                               "text": modelcase.render_text(rec["blocks"])}]


def replay(recs, nproc=16):
    total = {"models": len(recs), "compared": 0, "undefined": 0, "calls": 0}
    bad = []
    with cf.ProcessPoolExecutor(max_workers=nproc) as ex:
        for st, b in ex.map(_worker, recs, chunksize=4):
            for k in ("compared", "undefined", "calls"):
                total[k] += st[k]
            bad.extend(b)
    return total, bad
