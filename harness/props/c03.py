"""C03 - generated JAX code computes the same values, with full-size outputs."""
from .. import core, exprcorpus
from . import structural, tracesleg
from .c01 import run_expr_corpus
from .c06 import run_scheme_corpus


def main(chk: core.Check, replay):
    if replay:
        return core.replay_generic(chk, replay)
    quick = chk.tier == "quick"
    run_expr_corpus(chk, "C03", "jax", exprcorpus.QUICK_LEVELS if quick else exprcorpus.THOROUGH_LEVELS,
                    cap=500 if quick else 2500, batch=40)
    # jitted: a sample (tracing + compilation dominates)
    run_expr_corpus(chk, "C03", "jax-jit", [4, 5], cap=80 if quick else 300, batch=20, styles=("tmin",))
    run_scheme_corpus(chk, "C03", {"explicit_euler", "generalized_rush_larsen", "hybrid_rush_larsen", "generate"},
                      backend="jax", fams=[3, 4] if quick else [1, 2, 3, 4])
    structural.run(chk, "C03", quick_models=120, thorough_models=1500, layout=True)
    # the same modules jitted, called with JAX arrays (a few models: compilation dominates)
    structural.run(chk, "C03", backend="jax-jit", quick_models=10, thorough_models=40)
    tracesleg.run(chk, "C03")
    # missing_values and functions with a missing_variables argument (sub-models of a component split), backend jax
    from .c13 import split_corpus
    split_corpus(chk, "C03", ("jax",), 80 if quick else 600)


if __name__ == "__main__":
    core.main_wrapper(main, "C03")
