"""C14 - generated NumPy functions are vectorised: columns are independent.

The reference is the specification's scalar meaning applied per column (C14_Columnwise: the batch
semantics is the map of the scalar semantics); every generated function is called ONCE with
(n_states, N) arrays whose columns are the specification's input points (per-column parameters and
time) and column j is compared with the specification's value for point j."""
from .. import core, exprcorpus
from . import structural
from .c01 import run_expr_corpus
from .c06 import run_scheme_corpus


def main(chk: core.Check, replay):
    if replay:
        return core.replay_generic(chk, replay)
    quick = chk.tier == "quick"
    run_expr_corpus(chk, "C14", "numpy-batch", exprcorpus.QUICK_LEVELS if quick else exprcorpus.THOROUGH_LEVELS,
                    cap=1500 if quick else 10 ** 9)
    run_scheme_corpus(chk, "C14", {"explicit_euler", "generalized_rush_larsen", "hybrid_rush_larsen", "generate"},
                      backend="numpy-batch")
    structural.run_batch(chk, "C14")


if __name__ == "__main__":
    core.main_wrapper(main, "C14")
