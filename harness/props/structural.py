"""Structural corpus (MC_Struct): filled in below; placeholder until Pipeline.tla is bound."""


def run(chk, pid):
    return None
