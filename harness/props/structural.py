"""Structural corpus (MC_Struct): TLC builds every small model (dependency shapes x component layouts
x unused definitions), checks on each that the operational pipeline of Pipeline.tla refines the
meaning of the text, and emits models with their expected observations; the harness replays them
in the real library for the backend under test.  Shared by C01 C02 C03 C04 C05 C06 C07 C12."""
from __future__ import annotations

import hashlib

from .. import core, tlc, modelcase

ALL_TAGS = {"load", "generate", "harness", "index", "lengths", "rhs", "monitor", "explicit_euler",
            "generalized_rush_larsen", "hybrid_rush_larsen", "inputs_modified", "remove_unused",
            "monitor_values"}

PROFILE = {
    "C01": dict(inv=["C01_RhsRefinesDen", "Topological", "C08_GeneratedAreWellFormed"],
                tags={"load", "generate", "harness", "rhs"}, backend="numpy", ru=(False,), schemes=[]),
    "C02": dict(inv=["C01_RhsRefinesDen", "C04_MonitorRefinesDen", "C05_Euler", "C06_GRL"],
                tags=ALL_TAGS, backend="c", ru=(False, True), schemes=modelcase.SCHEMES),
    "C03": dict(inv=["C03_OutputLengths", "C01_RhsRefinesDen", "C04_MonitorRefinesDen", "C05_Euler", "C06_GRL"],
                tags=ALL_TAGS, backend="jax", ru=(False, True), schemes=modelcase.SCHEMES),
    "C04": dict(inv=["C04_IndexBijective", "C04_MonitorRefinesDen", "C03_OutputLengths", "C01_RhsRefinesDen"],
                tags=ALL_TAGS - {"load"}, backend="numpy", ru=(False, True), schemes=modelcase.SCHEMES),
    "C05": dict(inv=["C05_Euler"], tags={"generate", "harness", "explicit_euler", "inputs_modified", "lengths"},
                backend="numpy", ru=(False, True), schemes=["explicit_euler"]),
    "C06": dict(inv=["C06_GRL"], tags={"generate", "harness", "generalized_rush_larsen", "lengths"},
                backend="numpy", ru=(False, True), schemes=["generalized_rush_larsen"]),
    "C07": dict(inv=["C07_Hybrid"], tags={"generate", "harness", "hybrid_rush_larsen", "lengths"},
                backend="numpy", ru=(False,), schemes=modelcase.SCHEMES),
    "C12": dict(inv=["C12_SameResults", "C12_NoUseBeforeDef", "C04_IndexBijective"],
                tags=ALL_TAGS - {"load"}, backend="numpy", ru=(False, True), schemes=modelcase.SCHEMES),
}

CONSTS = {"NumLex": "<- NumLexDef", "BigToks": "{}", "NameOrder": "<- NameOrderDef", "ExtraLayouts": "{}"}


def run_tlc_struct(chk, invs, ninter, emit_mod, simulate=None, timeout=1500, free_schedule=False, extra_layouts=None):
    consts = dict(CONSTS, NInter=ninter, FreeSchedule=free_schedule, EmitMod=emit_mod)
    if extra_layouts:
        consts["ExtraLayouts"] = extra_layouts
    cfg = tlc.make_cfg(constants=consts, invariants=list(invs) + ["Emit"])
    res = tlc.run_tlc("MC_Struct", cfg, workers=chk.nproc, timeout=timeout, simulate=simulate,
                      coverage=(chk.tier == "thorough" and simulate is None and ninter == 1),
                      constants_for_summary={"NInter": ninter, "EmitMod": emit_mod, "FreeSchedule": free_schedule,
                                             "invariants": list(invs)})
    return res


def check_names_sorted(chk, recs):
    """The specification's NameOrder constant must be the order Python's sorted() gives."""
    for r in recs[:1]:
        names = r.get("names")
        if names and list(names) != sorted(names):
            raise core.MachineryFailure(f"NameOrder of the specification is not sorted(): {names}")


def model_sig(text):
    return hashlib.sha1(text.encode()).hexdigest()[:8]


def report(chk, pid, bad, tags, backend):
    for b in bad:
        if b["tag"] not in tags:
            continue
        if pid == "C12" and b["tag"] not in ("remove_unused", "generate", "harness") and not b.get("remove_unused"):
            continue
        sig = f"{pid}:{backend}:{b['tag']}:{b.get('fn', '')}:ru={b.get('remove_unused')}:model={model_sig(b.get('text', ''))}"
        if "exception" in b:
            what = f"{backend} {b['tag']} raised {b['exception']}: {b.get('message', '')[:160]}"
        elif b["tag"] == "remove_unused":
            what = f"{backend} {b['fn']}[{b['name']}] = {b['without']!r} without removal, {b['with']!r} with removal"
        elif "got" in b:
            what = f"{backend} {b.get('fn')}[{b['name']}] returned {b['got']!r}, the model text means {b['want_exact']}"
        else:
            what = f"{backend} {b['tag']} {({k: v for k, v in b.items() if k not in ('text',)})}"[:300]
        chk.violation(sig, b, what)


def run(chk: core.Check, pid: str, backend: str | None = None, quick_models: int = 400, thorough_models: int = 6000,
        layout: bool = False, layout_only=None):
    prof = PROFILE[pid]
    backend = backend or prof["backend"]
    recs = []
    if chk.tier == "quick":
        r1 = run_tlc_struct(chk, prof["inv"], 1, 23)
        chk.add_tlc(r1)
        recs += r1.records
        r3 = run_tlc_struct(chk, prof["inv"][:1], 3, 29, simulate={"num": 12, "depth": 8, "seed": chk.seed + 1}, timeout=600)
        chk.add_tlc(r3)
        recs += r3.records
        cap = quick_models
    else:
        r1 = run_tlc_struct(chk, prof["inv"], 1, 5)
        chk.add_tlc(r1)
        recs += r1.records
        r2 = run_tlc_struct(chk, prof["inv"], 2, 211, timeout=3000)
        chk.add_tlc(r2)
        recs += r2.records
        r3 = run_tlc_struct(chk, prof["inv"][:1], 3, 17, simulate={"num": 150, "depth": 8, "seed": chk.seed + 1}, timeout=1800)
        chk.add_tlc(r3)
        recs += r3.records
        cap = thorough_models
    for r in (r1,):
        r.records = []
    if not recs:
        raise core.MachineryFailure("MC_Struct emitted no model")
    check_names_sorted(chk, recs)
    # de-duplicate (simulation emits siblings repeatedly) and cap deterministically
    uniq = {}
    for r in recs:
        uniq.setdefault(modelcase.render_text(r["blocks"]), r)
    keys = sorted(uniq)
    if len(keys) > cap:
        import random
        rnd = random.Random(chk.seed)
        # models without parameters are rare among the generated ones (few dependency choices): a fixed share of them
        rare = [k for k in keys if "parameters(" not in k]
        rare = rnd.sample(rare, min(len(rare), max(8, cap // 16)))
        rest = [k for k in keys if k not in set(rare)]
        keys = sorted(rare + rnd.sample(rest, min(len(rest), cap - len(rare))))
    recs = [uniq[k] for k in keys]
    # every third model under a consistent renaming of its identifiers (names are arbitrary: leading underscores,
    # capitals, digits, names that differ only in case from another one)
    renamed = 0
    for j, r in enumerate(recs):
        if j % 3 == 1 and all(isinstance(c["expect"], dict) and "states" in c["input"] for c in r.get("cases", [])):
            recs[j] = modelcase.rename_rec(r, modelcase.RENAMINGS[(j // 3) % len(modelcase.RENAMINGS)])
            renamed += 1
    chk.extra.setdefault("renamed_models", []).append(renamed)
    workdir = str(tlc.scratch_root())
    stats, bad = modelcase.replay_model_cases(recs, backend, chk.nproc, remove_unused=prof["ru"], workdir=workdir,
                                              schemes=prof["schemes"])
    chk.replayed += stats["models"]
    chk.extra.setdefault("structural_corpus", []).append({"backend": backend, **stats, "mismatch_records": len(bad)})
    if stats["compared"] == 0:
        raise core.MachineryFailure("structural corpus: nothing compared")
    if layout:
        from .. import layoutcase
        lrecs = recs[: (60 if chk.tier == "quick" else 400)]
        lst, lbad = layoutcase.replay(lrecs, backend, chk.nproc, chk.seed, workdir)
        chk.extra.setdefault("layout_cases", []).append({"backend": backend, **lst, "mismatch_records": len(lbad)})
        for b in lbad:
            if layout_only is not None and not layout_only(b):
                continue
            sig = f"{pid}:{backend}:{b['tag']}:{b.get('kind', b.get('fn', ''))}:model={model_sig(b.get('text', ''))}"
            chk.violation(sig, b, f"{backend} {b['tag']}: " + str({k: v for k, v in b.items() if k not in ('text', 'tag', 'backend')})[:260])
    chk.sample({"model_text": modelcase.render_text(recs[0]["blocks"]), "input": recs[0]["cases"][0]["input"],
                "expected": recs[0]["cases"][0]["expect"]})
    report(chk, pid, bad, prof["tags"], backend)
    chk.last_structural_texts = [modelcase.render_text(r["blocks"]) for r in recs[:40]]
    return stats


def run_batch(chk: core.Check, pid: str):
    """C14: structural models, every function called once with all input points as columns."""
    r1 = run_tlc_struct(chk, ["C01_RhsRefinesDen", "C04_MonitorRefinesDen"], 1, 37 if chk.tier == "quick" else 7)
    chk.add_tlc(r1)
    recs = r1.records
    r1.records = []
    if not recs:
        raise core.MachineryFailure("MC_Struct emitted no model")
    stats, bad = modelcase.replay_model_cases_batch(recs, chk.nproc)
    chk.replayed += stats["models"]
    chk.extra.setdefault("structural_corpus_batch", []).append({**stats, "mismatch_records": len(bad)})
    for b in bad:
        sig = f"{pid}:numpy-batch:{b['tag']}:{b.get('fn', '')}:model={model_sig(b.get('text', ''))}"
        chk.violation(sig, b, f"vectorised {b.get('fn')}: " + str({k: v for k, v in b.items() if k not in ('text',)})[:260])
