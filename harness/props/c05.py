"""C05 - explicit Euler step equals states + dt * rhs."""
from .. import core
from . import structural
from .c06 import run_scheme_corpus


def main(chk: core.Check, replay):
    if replay:
        return core.replay_generic(chk, replay)
    run_scheme_corpus(chk, "C05", {"explicit_euler", "generate"}, fams=[3, 4, 5] if chk.tier == "quick" else [1, 2, 3, 4, 5],
                      schemes=["explicit_euler"])
    structural.run(chk, "C05")


if __name__ == "__main__":
    core.main_wrapper(main, "C05")
