"""C05 - explicit Euler step equals states + dt * rhs."""
from .. import core
from . import structural
from .c06 import run_scheme_corpus


def _alias_worker(rec):
    from .. import modelcase
    try:
        return modelcase.check_aliases(rec)
    except Exception as ex:  # noqa: BLE001
        import traceback
        return {"compared": 0, "undefined": 0, "calls": 0}, [{"tag": "harness", "message": traceback.format_exc()[-400:], "text": ""}]


def aliases(chk):
    """explicit Euler 'under any of its accepted names': euler, forward_euler, forward_explicit_euler, explicit_euler"""
    import concurrent.futures as cf
    r = structural.run_tlc_struct(chk, ["C05_Euler"], 1, 211)
    chk.add_tlc(r)
    recs = r.records[: (40 if chk.tier == "quick" else 400)]
    r.records = []
    total = {"models": len(recs), "compared": 0, "calls": 0}
    with cf.ProcessPoolExecutor(max_workers=chk.nproc) as ex:
        for st, bad in ex.map(_alias_worker, recs):
            total["compared"] += st["compared"]
            total["calls"] += st["calls"]
            for b in bad:
                chk.violation(f"C05:alias:{b['tag']}:{b.get('alias', '')}:model={structural.model_sig(b.get('text', ''))}", b,
                              f"scheme alias {b.get('alias')}: {b['tag']} " + str({k: v for k, v in b.items() if k not in ('text',)})[:200])
    chk.replayed += len(recs)
    chk.extra["alias_corpus"] = total


def main(chk: core.Check, replay):
    if replay:
        return core.replay_generic(chk, replay)
    run_scheme_corpus(chk, "C05", {"explicit_euler", "generate"}, fams=[3, 4, 5] if chk.tier == "quick" else [1, 2, 3, 4, 5],
                      schemes=["explicit_euler"])
    # (layout leg: ONE generator asked for the Euler step under every argument order - the step must be
    # states + dt*rhs whichever order the formals were asked in, and whatever was asked of that generator before)
    structural.run(chk, "C05", layout=True,
                   layout_only=lambda b: b.get("fn") == "explicit_euler" and b.get("tag") in ("arg-order", "arg-order-values"))
    # every backend: the C module (inputs are const arrays, compared after the call) and the jitted JAX module
    # called with JAX arrays (a donated buffer is a modified input)
    structural.run(chk, "C05", backend="c", quick_models=20, thorough_models=120)
    structural.run(chk, "C05", backend="jax-jit", quick_models=8, thorough_models=40)
    aliases(chk)


if __name__ == "__main__":
    core.main_wrapper(main, "C05")
