"""C09 - generated code and slot layout are reproducible across processes.

L1  MC_Struct: the layout is a function of the text (C09_LayoutDeterministic); in the thorough tier
    the same invariant is shown to FAIL when the iteration order of dependency sets is left free
    (the design sensitivity that makes the property non-trivial); Session.tla: the observation of a
    call does not depend on the calls before it.
L2  the same model texts (TLC's schedule-sensitive witnesses, a structural sample, the repository's
    models) are generated in fresh processes under different PYTHONHASHSEED values, each process taking
    the texts in its own order (they share assignment names): every output must be byte-identical; call histories generated from Session.tla are replayed in one process.
L3  the hook trace of each process gives the order in which dependency sets reach the sorter; when
    that order varies between processes, MC_Sched.tla decides on the recorded dependency structure
    whether some iteration order changes the layout (so detection does not depend on luck).
"""
from __future__ import annotations

import concurrent.futures as cf
import json
import os
import subprocess
import sys
import tempfile

from .. import core, tlc, modelcase, traces
from .structural import CONSTS, run_tlc_struct


def run_seed(seed, models_path):
    env = dict(os.environ, PYTHONHASHSEED=str(seed), GOTRANX_VERIF="1", JAX_PLATFORMS="cpu")
    p = subprocess.run([sys.executable, "-m", "harness.detrun", models_path], cwd=str(core.VERIF), env=env,
                       capture_output=True, text=True, timeout=1800)
    for line in p.stdout.splitlines():
        if line.startswith("DETRUN "):
            return seed, json.loads(line[7:]), None
    return seed, None, (p.stderr or p.stdout)[-800:]


def sched_search(chk, model_id, ode_text, simulate=False):
    """Ask the specification whether some iteration order changes the layout of this model."""
    from .. import gx
    ode = gx.load(ode_text)
    inters = [a.name for a in ode.intermediates]
    derivs = [a.name for a in ode.state_derivatives]
    deps = {a.name: sorted(a.value.dependencies) for a in ode.intermediates + ode.state_derivatives}
    fd, path = tempfile.mkstemp(prefix="sched-", suffix=".json", dir=tlc.scratch_root())
    with os.fdopen(fd, "w") as f:
        json.dump({"add_order": inters + derivs, "deps": deps, "derivs": derivs}, f)
    cfg = tlc.make_cfg(invariants=["C09_StateLayoutDeterministic", "C09_MonitorLayoutDeterministic"])
    sim = {"num": 40, "depth": len(inters + derivs) + 2, "seed": chk.seed + 3} if simulate else None
    res = tlc.run_tlc("MC_Sched", cfg, workers=chk.nproc, timeout=600, env={"MODEL_FILE": path}, simulate=sim,
                      stack="1g", constants_for_summary={"model": model_id})
    os.unlink(path)
    return res


def session_histories(chk, maxcalls):
    cfg = tlc.make_cfg(constants={"Mutating": False, "MaxCalls": maxcalls}, invariants=["C09_HistoryIndependent", "EmitHist"])
    res = tlc.run_tlc("Session", cfg, workers=chk.nproc, timeout=600, constants_for_summary={"Mutating": False, "MaxCalls": maxcalls})
    hists = res.records
    res.records = []
    chk.add_tlc(res)
    return hists


def tlaps_proof():
    import re
    import shutil
    import subprocess
    if not shutil.which("tlapm"):
        return {"status": "tlapm not found"}
    work = tempfile.mkdtemp(prefix="tlaps-", dir=tlc.scratch_root())
    try:
        for f in (tlc.SPEC / "proofs" / "SessionProof.tla", tlc.SPEC / "SessionCore.tla"):
            shutil.copy(f, work)
        p = subprocess.run(["tlapm", "--cleanfp", "SessionProof.tla"], cwd=work, capture_output=True, text=True, timeout=600)
        out = p.stdout + p.stderr
        m = re.search(r"All (\d+) obligations? proved", out)
        return {"status": "proved" if m else "not proved", "obligations": int(m.group(1)) if m else 0,
                "theorem": "Mutating = FALSE => (SpecU => []C09_HistoryIndependent), SpecU = the specification without the bound on calls",
                "tail": "" if m else out[-400:]}
    except Exception as ex:  # noqa: BLE001
        return {"status": f"not run: {type(ex).__name__}"}
    finally:
        shutil.rmtree(work, ignore_errors=True)


def replay_histories(chk, hists):
    """All histories back to back in this process: every observable call must show its own name."""
    from .. import gx
    import re
    import gotranx
    from gotranx.codegen.python import PythonCodeGenerator, Format
    ode = gx.load("states(x=1, y=2)\nparameters(a=3)\ndx_dt = a*(y - x)\ndy_dt = -y + x\n")
    cg = PythonCodeGenerator(ode, format=Format.none)
    n = 0
    for h in hists:
        for c in h["hist"]:
            if c["call"] == "get_scheme":
                gotranx.schemes.get_scheme(c["arg"])
                continue
            if c["call"] == "get_code":
                code = cg.scheme(gotranx.schemes.get_scheme(c["arg"]))
            else:
                code = cg.scheme(getattr(gotranx.schemes, c["arg"]))
            n += 1
            name = re.search(r"def (\w+)\(", code).group(1)
            if name != c["arg"]:
                chk.violation(f"C09:history:{c['call']}:{c['arg']}", {"history": h["hist"], "emitted": name, "call": c},
                              f"after the calls {[x['call'] + '(' + x['arg'] + ')' for x in h['hist']]} "
                              f"{c['call']}({c['arg']}) emitted `def {name}`")
    return n


def main(chk: core.Check, replay):
    if replay:
        return core.replay_generic(chk, replay)
    quick = chk.tier == "quick"
    # ---- L1
    r = run_tlc_struct(chk, ["C09_LayoutDeterministic", "C04_IndexBijective"], 1 if quick else 2, 97 if quick else 1013)
    sample_recs = r.records
    r.records = []
    chk.add_tlc(r)
    # schedule-sensitive witnesses: the design with free iteration order (its violation is expected and is
    # NOT a verdict on the code: it supplies the models on which set-iteration order would matter)
    consts = dict(CONSTS, NInter=1, FreeSchedule=True, EmitMod=0)
    cfg = tlc.make_cfg(constants=consts, invariants=["EmitSchedSensitive", "Topological"])
    rf = tlc.run_tlc("MC_Struct", cfg, workers=chk.nproc, timeout=1200, constants_for_summary=consts)
    witnesses = rf.records
    rf.records = []
    chk.add_tlc(rf)
    chk.extra["schedule_sensitive_witnesses"] = len(witnesses)
    if not witnesses:
        raise core.MachineryFailure("no schedule-sensitive witness: the C09 invariant would be vacuous")
    hists = session_histories(chk, 2 if quick else 3)
    # ---- L2: processes under different hash seeds
    models = {}
    # stratify the witnesses by WHICH dependency sets must be iterated differently to change the layout, so that
    # every kind of pair (in particular names that differ only in case) is among the models run under several seeds
    strata = {}
    for w in witnesses:
        key = tuple(sorted(tuple(sorted(f)) for f in w.get("flipped", [])))
        strata.setdefault(key, []).append(w)
    per = 1 if quick else 8
    chosen = [w for k in sorted(strata, key=lambda k: (len(k), k)) for w in strata[k][:per]]   # single flipped pairs first
    chk.extra["witness_strata"] = len(strata)
    for w in chosen:
        t = modelcase.render_text(w["blocks"])
        models.setdefault(t, {"id": f"w{len(models)}", "text": t})
        if len(models) >= (70 if quick else 600):
            break
    for rec in sample_recs[: (30 if quick else 200)]:
        t = modelcase.render_text(rec["blocks"])
        models.setdefault(t, {"id": f"s{len(models)}", "text": t})
    for f in traces.repo_models(chk.tier):
        big = f.stat().st_size > 12000
        models[f.read_text()] = {"id": f.stem, "text": f.read_text(), "heavy": big}
    mlist = list(models.values())
    fd, mpath = tempfile.mkstemp(prefix="det-", suffix=".json", dir=tlc.scratch_root())
    with os.fdopen(fd, "w") as f:
        json.dump(mlist, f)
    seeds = list(range(0, 6)) if quick else list(range(0, 32))
    results = {}
    with cf.ThreadPoolExecutor(min(len(seeds), chk.nproc)) as ex:
        for seed, out, err in ex.map(lambda s: run_seed(s, mpath), seeds):
            if out is None:
                raise core.MachineryFailure(f"determinism worker failed under seed {seed}: {err}")
            results[seed] = out
    by_id = {m["id"]: m for m in mlist}
    varied_iters = []
    for mid in by_id:
        ref_seed = seeds[0]
        ref = results[ref_seed][mid]
        if "error" in ref:
            chk.violation(f"C09:error:{mid}", {"model": by_id[mid]["text"], "error": ref["error"]}, f"generation failed: {ref['error']}")
            continue
        if not ref.get("self_equal", True):
            chk.violation(f"C09:self-equal:{mid}", {"model": by_id[mid]["text"]}, "the same text loaded twice compares unequal")
        for s in seeds[1:]:
            cur = results[s][mid]
            diff = [k for k in ref if k != "iters" and cur.get(k) != ref[k]]
            if diff:
                chk.violation(f"C09:process-dependent:{'+'.join(sorted(diff))}:{mid if not mid[1:].isdigit() else 'generated-model'}",
                              {"model": by_id[mid]["text"], "seed_a": ref_seed, "seed_b": s,
                               "differs": {k: [ref.get(k), cur.get(k)] for k in diff if k.endswith('index') or k == 'components'},
                               "fields": diff},
                              f"the processes with PYTHONHASHSEED={ref_seed} and {s} (each handling the models in its own order) give different {diff} for the same model text")
            if cur.get("iters") != ref.get("iters"):
                varied_iters.append(mid)
    varied_iters = sorted(set(varied_iters))
    chk.extra["seeds"] = seeds
    chk.extra["models_under_seeds"] = len(mlist)
    chk.extra["models_with_split_digest"] = sum(1 for mid in by_id if "split" in results[seeds[0]][mid])
    if not chk.extra["models_with_split_digest"]:
        raise core.MachineryFailure("no model with several components among the models run under several hash seeds")
    chk.extra["models_with_seed_dependent_iteration_order"] = len(varied_iters)
    chk.replayed += len(mlist) * len(seeds)
    # ---- L3: when the iteration order observed through the hooks varies, the specification decides
    for mid in varied_iters[: (4 if quick else 12)]:
        big = by_id[mid].get("heavy", False)
        res = sched_search(chk, mid, by_id[mid]["text"], simulate=big)
        chk.tlc_runs.append(res.summary())
        chk.states += res.distinct
        chk.transitions += res.generated
        if res.errors:
            chk.fail(f"MC_Sched error on {mid}: {res.errors[0][:300]}")
        for v in res.violations:
            chk.violation(f"C09:schedule:{v['invariant']}:{mid if not mid[1:].isdigit() else 'generated-model'}",
                          {"model": by_id[mid]["text"], "trace": v["trace"][-3000:]},
                          f"dependency sets of {mid} reach the sorter in a process-dependent order (hook trace) and the "
                          f"specification finds an order that changes the layout ({v['invariant']})")
    chk.traces += len(mlist) * len(seeds)
    # ---- histories
    n = replay_histories(chk, hists)
    chk.extra["histories"] = {"generated": len(hists), "observable_calls_replayed": n}
    chk.replayed += len(hists)
    # ---- histories of API calls on live objects (SessionApi.tla): every observation against a fresh process
    from .. import sessionapi
    import random
    cfg = tlc.make_cfg(constants={"MaxCalls": 3}, invariants=["C09_HistoryIndependent", "EmitHist"])
    ra = tlc.run_tlc("SessionApi", cfg, workers=chk.nproc, timeout=600, constants_for_summary={"MaxCalls": 3})
    api_hists = ra.records
    ra.records = []
    chk.add_tlc(ra)
    if not api_hists:
        raise core.MachineryFailure("SessionApi emitted no history")
    # histories that repeat Split on one model (the client's argument objects are passed a second time) are few:
    # a fixed share of the sample
    def repeats_split(h):
        ms = [c["m"] for c in h["hist"] if c["op"] == "split"]
        return len(ms) != len(set(ms))
    rnd = random.Random(chk.seed)
    rep = [h for h in api_hists if repeats_split(h)]
    rest = [h for h in api_hists if not repeats_split(h)]
    nrep = min(len(rep), 15 if quick else 200)
    # every history made of three loads: what a loader keeps from the end of one text meets the beginning of the next
    loads = [h for h in rest if all(c["op"] == "load" for c in h["hist"])]
    rest = [h for h in rest if h not in loads]
    api_hists = rnd.sample(rep, nrep) + loads + rnd.sample(rest, min((60 if quick else 800) - nrep, len(rest)))
    if nrep == 0:
        raise core.MachineryFailure("no history repeats Split on one model")
    ncalls, bad = sessionapi.replay(api_hists)
    chk.replayed += len(api_hists)
    chk.extra["api_histories"] = {"histories": len(api_hists), "repeating_split": nrep, "observable_calls": ncalls, "mismatches": len(bad)}
    for b in bad:
        c = b["call"]
        if c["op"] == "load":
            chk.violation(f"C09:api-history:load:{c['m']}", b,
                          f"loading the text of {c['m']} after the calls {[x['op'] + ':' + x['m'] for x in b['history'][:b['position']]]} "
                          f"gives another model (components / code) than loading it in a fresh process")
            continue
        if c["op"] == "split":
            chk.violation(f"C09:api-history:split:{c['m']}", b,
                          f"the two halves of {c['m']} (to_ode / minus) generated after the calls "
                          f"{[x['op'] + ':' + x['m'] for x in b['history'][:b['position']]]} with the argument objects the client "
                          f"kept differ from the same call in a fresh process")
            continue
        chk.violation(f"C09:api-history:{c['be']}:ru={c['ru']}:sch={c['sch']}", b,
                      f"get_code({c['m']}, backend={c['be']}, remove_unused={c['ru']}, schemes={c['sch']}) after the calls "
                      f"{[x['op'] + ':' + x['m'] for x in b['history'][:b['position']]]} differs from the same call in a fresh process")
    # ---- unbounded: TLAPS proof of C09_HistoryIndependent for histories of any length (spec/proofs/SessionProof.tla).
    # Supplementary: TLC above decides the bounded instance; a prover that is missing or slow is recorded, not judged.
    chk.extra["tlaps_session_proof"] = tlaps_proof()
    # ---- design sensitivity (thorough): the invariant fails when the schedule is free
    if not quick:
        consts = dict(CONSTS, NInter=1, FreeSchedule=True, EmitMod=0)
        cfg = tlc.make_cfg(constants=consts, invariants=["C09_LayoutDeterministic"])
        rr = tlc.run_tlc("MC_Struct", cfg, workers=chk.nproc, timeout=600, constants_for_summary=consts)
        chk.extra["design_sensitivity"] = {"free_schedule_violates_C09_LayoutDeterministic": bool(rr.violations),
                                           "states": rr.generated}
        cfg = tlc.make_cfg(constants={"Mutating": True, "MaxCalls": 3}, invariants=["C09_HistoryIndependent"])
        rr = tlc.run_tlc("Session", cfg, workers=4, timeout=300)
        chk.extra["design_sensitivity"]["mutating_get_scheme_violates_C09_HistoryIndependent"] = bool(rr.violations)
    chk.sample({"model_text": mlist[0]["text"], "digests_seed0": {k: v for k, v in results[seeds[0]][mlist[0]["id"]].items() if k != "iters"}})
    if hists:
        chk.sample(hists[0])


if __name__ == "__main__":
    core.main_wrapper(main, "C09")
