"""C12 - see DESIGN.md section 6."""
from .. import core
from . import structural, tracesleg


def main(chk: core.Check, replay):
    if replay:
        return core.replay_generic(chk, replay)
    structural.run(chk, "C12")
    extra = [(f"gen{i}", t) for i, t in enumerate(getattr(chk, "last_structural_texts", [])[:24])]
    tracesleg.run(chk, 'C12', extra_models=extra)


if __name__ == "__main__":
    core.main_wrapper(main, "C12")
