"""C12 - see DESIGN.md section 6."""
from .. import core
from . import structural, tracesleg
from .c13 import split_corpus


def main(chk: core.Check, replay):
    if replay:
        return core.replay_generic(chk, replay)
    structural.run(chk, "C12")
    extra = [(f"gen{i}", t) for i, t in enumerate(getattr(chk, "last_structural_texts", [])[:24])]
    tracesleg.run(chk, 'C12', extra_models=extra)
    # sub-models (to_ode() / model - component) have missing variables: removal of unused variables must not
    # change what they compute either (every mismatch that shows with remove_unused=True)
    split_corpus(chk, "C12", ("numpy",), 80 if chk.tier == "quick" else 800, only=lambda b: bool(b.get("remove_unused")))


if __name__ == "__main__":
    core.main_wrapper(main, "C12")
