"""C08 - ill-formed models are rejected, never silently repaired."""
from .. import core, tlc, illformed
from .structural import CONSTS, model_sig


KINDS = {"clash-param-derivative", "clash-param-any-assignment", "dup-identical", "dup-diff-samedeps", "dup-regrouped", "dup-diff-deps", "dup-other-comp-diff", "dup-other-comp-identical",
         "clash-state-param-equal", "clash-state-param-unequal", "clash-param-inter", "clash-state-inter",
         "dup-state-diff", "dup-param-diff", "dup-state-identical",
         "missing-derivative", "orphan-derivative", "misplaced-derivative",
         "orphan-derivative-stateless", "derivative-of-parameter", "derivative-copy-elsewhere",
         "undefined-symbol", "cycle-1", "cycle-2", "undefined-in-param-value"}


def main(chk: core.Check, replay):
    if replay:
        return core.replay_generic(chk, replay)
    quick = chk.tier == "quick"
    consts = dict(CONSTS, NInter=1 if quick else 2, FreeSchedule=False, EmitMod=0,
                  BaseMod=7 if quick else 53, FaultEmitMod=127 if quick else 61)
    cfg = tlc.make_cfg(spec="FSpec", constants=consts,
                       invariants=["C08_AcceptIffWellFormed", "C08_FaultsAreIllFormed", "C08_NoSilentChoice", "FEmit"])
    res = tlc.run_tlc("MC_IllFormed", cfg, workers=chk.nproc, timeout=3000, constants_for_summary=consts)
    recs = res.records
    res.records = []
    chk.add_tlc(res)
    if not recs:
        raise core.MachineryFailure("MC_IllFormed emitted nothing")
    out = illformed.replay(recs, chk.nproc)
    chk.replayed += len(out)
    kinds = {}
    for o in out:
        k = kinds.setdefault(o["fault"]["kind"], {"texts": 0, "ill_formed": 0, "rejected": 0, "accepted": 0})
        k["texts"] += 1
        k["ill_formed"] += (not o["wellformed"])
        k["accepted" if o["accepted"] else "rejected"] += 1
        if not o["wellformed"] and o["accepted"]:
            site = o["fault"]["site"]
            site_kind = "derivative" if site.startswith("d") and site.endswith("_dt") else "name"
            chk.violation(f"C08:accepted:{o['fault']['kind']}:{site_kind}", o,
                          f"ill-formed text (fault {o['fault']['kind']} at {site}) was loaded and code was generated: "
                          f"one of two conflicting definitions was silently kept")
    chk.extra["faults"] = kinds
    # conformance note (never a verdict): does the staged loader of Pipeline.tla also predict WHICH error is raised?
    agree, differ = 0, {}
    for o in out:
        if o["accepted"] or o["spec_outcome"] == "ok":
            continue
        if o["exception"] == o["spec_outcome"]:
            agree += 1
        else:
            k = f"{o['fault']['kind']}: spec {o['spec_outcome']}, code {o['exception']}"
            differ[k] = differ.get(k, 0) + 1
    chk.extra["staged_loader_conformance"] = {"same_exception_class": agree, "other_class": dict(sorted(differ.items(), key=lambda kv: -kv[1])[:12])}
    if set(kinds) != KINDS:
        raise core.MachineryFailure(f"fault kinds without a text or unknown: {sorted(set(kinds) ^ KINDS)}")
    chk.extra["wellformed_but_rejected"] = sum(1 for o in out if o["wellformed"] and not o["accepted"])
    bad = [o for o in out if not o["wellformed"]]
    if not bad:
        raise core.MachineryFailure("no ill-formed text in the sample")
    chk.sample({"text": bad[0]["text"], "fault": bad[0]["fault"], "well_formed": False, "real_loader": bad[0]["exception"]})
    chk.sample({"text": out[0]["text"], "fault": out[0]["fault"], "well_formed": out[0]["wellformed"], "real_loader": out[0]["exception"]})
    # arbitrary token strings at file level (OdeFile.tla / MC_File.tla): what the loader accepts is well formed
    from .. import filecase
    filecase.run(chk, "C08")


if __name__ == "__main__":
    core.main_wrapper(main, "C08")
