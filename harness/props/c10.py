"""C10 - the model does not depend on the order in which statements are written."""
import concurrent.futures as cf

from .. import core, tlc, modelcase
from .structural import CONSTS


def _worker(recs):
    from .. import gx
    out = []
    for r in recs:
        ta, tb = modelcase.render_text(r["blocks"]), modelcase.render_text(r["pblocks"])
        res = {"text": ta, "permuted": tb, "perm": r["perm"], "problems": []}
        try:
            a = gx.load(ta, name="m")
        except Exception as ex:  # noqa: BLE001
            res["problems"].append(f"original does not load: {type(ex).__name__}")
            out.append(res)
            continue
        try:
            b = gx.load(tb, name="m")
        except Exception as ex:  # noqa: BLE001
            res["problems"].append(f"load-error:{type(ex).__name__}: {str(ex)[:120]}")
            out.append(res)
            continue
        if not (a == b):
            res["problems"].append("models-unequal")
        for label, gen in (("numpy", lambda o: gx.numpy_code(o, ["explicit_euler", "generalized_rush_larsen"])),
                           ("c", lambda o: gx.c_code(o, ["explicit_euler"])),
                           ("numpy-remove-unused", lambda o: gx.numpy_code(o, [], remove_unused=True))):
            try:
                if gen(a) != gen(b):
                    res["problems"].append(f"code-differs:{label}")
            except Exception as ex:  # noqa: BLE001
                res["problems"].append(f"generate-error:{label}:{type(ex).__name__}")
        out.append(res)
    return out


def main(chk: core.Check, replay):
    if replay:
        return core.replay_generic(chk, replay)
    quick = chk.tier == "quick"
    consts = dict(CONSTS, NInter=1 if quick else 2, FreeSchedule=False, EmitMod=0,
                  BaseMod=11 if quick else 97, PermEmitMod=23 if quick else 41)
    cfg = tlc.make_cfg(spec="PSpec", constants=consts,
                       invariants=["C10_SameModel", "C10_SameLayout", "C10_StillAccepted", "PEmit"])
    res = tlc.run_tlc("MC_Perm", cfg, workers=chk.nproc, timeout=3000, constants_for_summary=consts)
    recs = res.records
    res.records = []
    chk.add_tlc(res)
    if not recs:
        raise core.MachineryFailure("MC_Perm emitted nothing")
    chunks = [recs[i::chk.nproc * 2] for i in range(chk.nproc * 2)]
    out = []
    with cf.ProcessPoolExecutor(max_workers=chk.nproc) as ex:
        for o in ex.map(_worker, [c for c in chunks if c]):
            out.extend(o)
    chk.replayed += len(out)
    kinds = {}
    for o in out:
        k = kinds.setdefault(o["perm"]["kind"], {"texts": 0, "problems": 0})
        k["texts"] += 1
        multi = 'expressions("' in o["text"]
        for p in o["problems"]:
            k["problems"] += 1
            chk.violation(f"C10:{p.split(':')[0]}:{':'.join(p.split(':')[1:2])}:{o['perm']['kind']}:{'multi' if multi else 'single'}-component", o,
                          f"permutation {o['perm']['kind']} of the text: {p}")
    chk.extra["permutations"] = kinds
    chk.sample({"text": out[0]["text"], "permuted": out[0]["permuted"], "perm": out[0]["perm"]})


if __name__ == "__main__":
    core.main_wrapper(main, "C10")
