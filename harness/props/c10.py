"""C10 - the model does not depend on the order in which statements are written."""
import concurrent.futures as cf

from .. import core, tlc, modelcase
from .structural import CONSTS


def _worker(recs):
    from .. import gx
    out = []
    for r in recs:
        sep = r["perm"].get("sep") == "comments"
        ta, tb = modelcase.render_text(r["blocks"], sep_comments=sep), modelcase.render_text(r["pblocks"], sep_comments=sep)
        res = {"text": ta, "permuted": tb, "perm": r["perm"], "problems": []}
        try:
            a = gx.load(ta, name="m")
        except Exception as ex:  # noqa: BLE001
            res["problems"].append(f"original-does-not-load:{type(ex).__name__}")
            out.append(res)
            continue
        try:
            b = gx.load(tb, name="m")
        except Exception as ex:  # noqa: BLE001
            res["problems"].append(f"load-error:{type(ex).__name__}: {str(ex)[:120]}")
            out.append(res)
            continue
        if not (a == b):
            res["problems"].append("models-unequal")
        for label, gen in (("numpy", lambda o: gx.numpy_code(o, ["explicit_euler", "generalized_rush_larsen"])),
                           ("c", lambda o: gx.c_code(o, ["explicit_euler"])),
                           ("numpy-remove-unused", lambda o: gx.numpy_code(o, [], remove_unused=True))):
            try:
                if gen(a) != gen(b):
                    res["problems"].append(f"code-differs:{label}")
            except Exception as ex:  # noqa: BLE001
                res["problems"].append(f"generate-error:{label}:{type(ex).__name__}")
        out.append(res)
    return out


def _sub_codes(gx, ode):
    """Code of every component taken out as a model of its own (None where that is refused)."""
    out = {}
    for c in ode.components:
        if not c.name:
            continue
        try:
            out[c.name] = gx.numpy_code(c.to_ode(), [])
        except Exception as ex:  # noqa: BLE001
            out[c.name] = f"refused:{type(ex).__name__}"
    return out


def _dup_worker(recs):
    from .. import gx
    out = []
    for r in recs:
        # the faulted text; the same text with the entries of every block reversed (the duplicate comes first);
        # the same text with the blocks in reverse order (the other component comes first)
        ta = modelcase.render_text(r["blocks"])
        rev = [dict(b, entries=list(reversed(b["entries"]))) for b in r["blocks"]]
        tb = modelcase.render_text(rev)
        # (only where every expressions block carries its component header: a header-less block placed below another
        # component's header would belong to that component, which is another text, not a permutation of this one)
        headed = all(b["comp"] for b in r["blocks"] if b["k"] == "expressions")
        tc = modelcase.render_text(list(reversed(r["blocks"]))) if headed else ta
        res = []
        for t in (ta, tb, tc):
            try:
                ode = gx.load(t, name="m")
                res.append(("accepted", gx.numpy_code(ode, []), ode, _sub_codes(gx, ode)))
            except Exception as ex:  # noqa: BLE001
                res.append(("rejected", type(ex).__name__, None, None))
        o = {"text": ta, "reversed": tb, "blocks_reversed": tc, "fault": r["fault"], "a": res[0][0], "b": res[1][0], "c": res[2][0],
             "same_code": None, "differs": []}
        if res[0][0] == "accepted":
            for label, x in (("entries-reversed", res[1]), ("blocks-reversed", res[2])):
                if x[0] != "accepted":
                    continue
                if x[1] != res[0][1]:
                    o["differs"].append(f"{label}:code")
                if not (x[2] == res[0][2]):
                    o["differs"].append(f"{label}:model-equality")
                if x[3] != res[0][3]:
                    o["differs"].append(f"{label}:component-sub-model-code")
            o["same_code"] = not o["differs"]
        out.append(o)
    return out


def swapped_duplicates(chk, quick):
    """A text with two conflicting definitions of one name: whether it is refused, and what is generated if it is
    not, must not depend on which of the two is written first."""
    consts = dict(CONSTS, NInter=1, FreeSchedule=False, EmitMod=0, BaseMod=41 if quick else 7, FaultEmitMod=7 if quick else 17)
    cfg = tlc.make_cfg(spec="FSpec", constants=consts, invariants=["C08_AcceptIffWellFormed", "FEmit"])
    res = tlc.run_tlc("MC_IllFormed", cfg, workers=chk.nproc, timeout=1800, constants_for_summary=consts)
    recs = [r for r in res.records if r["fault"]["kind"].startswith("dup-")]
    kinds_seen = {r["fault"]["kind"] for r in recs}
    if "dup-other-comp-identical" not in kinds_seen or "dup-identical" not in kinds_seen:
        raise core.MachineryFailure(f"duplicate kinds without a text: {sorted(kinds_seen)}")
    res.records = []
    chk.add_tlc(res)
    chunks = [recs[i::chk.nproc * 2] for i in range(chk.nproc * 2)]
    n = 0
    with cf.ProcessPoolExecutor(max_workers=chk.nproc) as ex:
        for out in ex.map(_dup_worker, [c for c in chunks if c]):
            for o in out:
                n += 1
                if len({o["a"], o["b"], o["c"]}) > 1 or o["same_code"] is False:
                    chk.violation(f"C10:duplicate-order:{o['fault']['kind']}:{'+'.join(sorted(set(d.split(':')[1] for d in o['differs']))) or 'accept-reject'}", o,
                                  f"two definitions of {o['fault']['site']} ({o['fault']['kind']}): as written the text is {o['a']}, with the "
                                  f"entries reversed {o['b']}, with the blocks reversed {o['c']}; differences: {o['differs']}")
    chk.replayed += n
    chk.extra["duplicate_order_texts"] = n


def main(chk: core.Check, replay):
    if replay:
        return core.replay_generic(chk, replay)
    quick = chk.tier == "quick"
    consts = dict(CONSTS, NInter=1 if quick else 2, FreeSchedule=False, EmitMod=0, ExtraLayouts='{"headed"}',
                  BaseMod=41 if quick else 97, PermEmitMod=4 if quick else 41)
    cfg = tlc.make_cfg(spec="PSpec", constants=consts,
                       invariants=["C10_SameModel", "C10_SameLayout", "C10_StillAccepted", "PEmit"])
    res = tlc.run_tlc("MC_Perm", cfg, workers=chk.nproc, timeout=3000, constants_for_summary=consts)
    recs = res.records
    res.records = []
    chk.add_tlc(res)
    if not recs:
        raise core.MachineryFailure("MC_Perm emitted nothing")
    chunks = [recs[i::chk.nproc * 2] for i in range(chk.nproc * 2)]
    out = []
    with cf.ProcessPoolExecutor(max_workers=chk.nproc) as ex:
        for o in ex.map(_worker, [c for c in chunks if c]):
            out.extend(o)
    chk.replayed += len(out)
    kinds, layouts = {}, {"headed": 0, "split": 0, "one-anonymous-component": 0}
    for o in out:
        layouts["headed" if 'expressions("M")' in o["text"] else "split" if 'expressions("' in o["text"] else "one-anonymous-component"] += 1
        k = kinds.setdefault(o["perm"]["kind"] + ("+comment-lines" if o["perm"].get("sep") == "comments" else ""), {"texts": 0, "problems": 0})
        k["texts"] += 1
        multi = 'expressions("' in o["text"]
        for p in o["problems"]:
            k["problems"] += 1
            chk.violation(f"C10:{p.split(':')[0]}:{':'.join(p.split(':')[1:2])}:{o['perm']['kind']}:{'multi' if multi else 'single'}-component{':comment-lines' if o['perm'].get('sep') == 'comments' else ''}", o,
                          f"permutation {o['perm']['kind']} of the text: {p}")
    chk.extra["permutations"] = kinds
    chk.extra["permuted_texts_by_layout"] = layouts
    if not all(layouts.values()):
        raise core.MachineryFailure(f"a component layout has no permuted text: {layouts}")
    swapped_duplicates(chk, quick)
    chk.sample({"text": out[0]["text"], "permuted": out[0]["permuted"], "perm": out[0]["perm"]})


if __name__ == "__main__":
    core.main_wrapper(main, "C10")
