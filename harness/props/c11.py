"""C11 - saving a model to .ode and loading it back preserves the model."""
from .. import core, exprcorpus, saveload, modelcase
from .c01 import run_expr_corpus
from .structural import run_tlc_struct, model_sig


def main(chk: core.Check, replay):
    if replay:
        return core.replay_generic(chk, replay)
    quick = chk.tier == "quick"
    # every construct of the language through save -> load -> generate -> evaluate, against the specification
    run_expr_corpus(chk, "C11", "saveload", exprcorpus.QUICK_LEVELS if quick else exprcorpus.THOROUGH_LEVELS,
                    cap=500 if quick else 6000, batch=60, styles=("tmin",))
    # structural models (components, units, descriptions): atoms and numerics of the reloaded model
    r = run_tlc_struct(chk, ["C08_GeneratedAreWellFormed", "C01_RhsRefinesDen"], 1 if quick else 2, 41 if quick else 307,
                       extra_layouts='{"mixed", "headed"}')
    recs = r.records
    r.records = []
    chk.add_tlc(r)
    if not recs:
        raise core.MachineryFailure("MC_Struct emitted nothing")
    stats, bad = saveload.replay(recs, chk.nproc)
    chk.replayed += stats["models"]
    chk.extra["structural_saveload"] = {**stats, "mismatch_records": len(bad),
                                        "mixed_layout_models": sum(1 for r in recs if r["blocks"][0]["comp"] == "A" and any(not b["comp"] for b in r["blocks"])),
                                        "annotated_models": sum(1 for r in recs if any(e.get("unit") for b in r["blocks"] for e in b["entries"]))}
    for b in bad:
        sig = f"C11:{b['tag']}:{b.get('fn', b.get('name', ''))}:model={model_sig(b.get('text', ''))}"
        chk.violation(sig, b, f"save/load: {b['tag']} " + str({k: v for k, v in b.items() if k not in ('text', 'saved', 'tag')})[:240])
    chk.sample({"model_text": modelcase.render_text(recs[-1]["blocks"])})
    # loadable file-level strings (OdeFile.tla): atoms that belong to several components, headers with two names,
    # comments and annotations, assignments before declarations
    from .. import filecase
    filecase.run_saveload(chk)
    # models that do not come from .ode text (Myokit imports: flat multi-branch Piecewise, renamed symbols): saving and
    # reloading must not change what they compute
    from .c15 import myokit_corpus
    myokit_corpus(chk, "C11", n_quick=150, kinds={"save-reload-error", "save-reload-changes-rhs"})


if __name__ == "__main__":
    core.main_wrapper(main, "C11")
