"""C15 - importing a Myokit / CellML model preserves its dynamics."""
import random
import shutil
import tempfile
from pathlib import Path

from .. import core, tlc, myokitcase


def repo_files(chk):
    """The repository's own Myokit / CellML files: import -> save -> reload -> rhs against Myokit's derivatives."""
    from .. import gx
    import myokit
    import myokit.formats.cellml
    import numpy as np
    from gotranx.myokit import myokit_to_gotran, mmt_to_gotran, cellml_to_gotran
    from gotranx.load import load_ode
    files = [gx.REPO / "tests" / "mmt_files" / "example.mmt", gx.REPO / "tests" / "cellml_files" / "noble_1962.cellml"]
    if chk.tier == "thorough":
        files.append(gx.REPO / "tests" / "cellml_files" / "ToRORd_dynCl_mid.cellml")
    done = []
    for f in files:
        d = Path(tempfile.mkdtemp(prefix="mkrepo-", dir=tlc.scratch_root()))
        try:
            if f.suffix == ".mmt":
                model, protocol, _ = myokit.load(f)
                ode = mmt_to_gotran(f)
                ref = model.clone()
                if protocol is not None:
                    import myokit.lib.guess
                    myokit.lib.guess.add_embedded_protocol(ref, protocol)
            else:
                ref = myokit.formats.cellml.CellMLImporter().model(f)
                ode = cellml_to_gotran(f)
            try:
                ode.save(d / "m.ode")
                ode2 = load_ode(d / "m.ode")
            except Exception as ex:  # noqa: BLE001
                chk.violation(f"C15:repo:save-reload:{f.name}", {"file": str(f), "error": f"{type(ex).__name__}: {ex}"[:300]},
                              f"{f.name}: the imported model cannot be saved and reloaded: {type(ex).__name__}: {str(ex)[:120]}")
                continue
            ref.create_unique_names()
            import sympy
            reserved = {n for n in dir(sympy) if not n.startswith("_")}
            ns = gx.exec_module(gx.numpy_code(ode2))
            states = list(ref.states())
            uname = [(v.uname() + "_" if v.uname() in reserved else v.uname()) for v in states]
            init = [float(x) for x in ref.initial_values(as_floats=True)]
            p = ns["init_parameter_values"]()
            rnd = random.Random(chk.seed)
            worst = 0.0
            for k in range(3):
                st = [x * (1 + (0.01 * rnd.uniform(-1, 1) if k else 0)) for x in init]
                dref = ref.evaluate_derivatives(state=st, ignore_errors=True)
                s = np.zeros(len(states))
                for u, x in zip(uname, st):
                    s[ns["state_index"](u)] = x
                with gx.quiet_np():
                    got = ns["rhs"](0.0, s, p)
                for u, w in zip(uname, dref):
                    g = float(got[ns["state_index"](u)])
                    w = float(w)
                    if w != w and g != g:
                        continue
                    err = abs(g - w) / max(1.0, abs(w))
                    worst = max(worst, err if err == err else 1.0)
                    if not (err <= 1e-8):
                        chk.violation(f"C15:repo:rhs:{f.name}:{u}", {"file": str(f), "state": u, "got": g, "want": w, "point": k},
                                      f"{f.name}: d{u}/dt = {g!r} after import/save/reload, Myokit gives {w!r}")
            # initial values under unique names
            iv = ns["init_state_values"]()
            for u, x in zip(uname, init):
                if abs(float(iv[ns["state_index"](u)]) - x) > 1e-12 * max(1, abs(x)):
                    chk.violation(f"C15:repo:init:{f.name}:{u}", {"state": u}, f"{f.name}: initial value of {u} differs")
            done.append({"file": f.name, "states": len(states), "max_relative_error": worst})
            chk.replayed += 1
        finally:
            shutil.rmtree(d, ignore_errors=True)
    chk.extra["repository_files"] = done


def myokit_corpus(chk, pid, n_quick=300, kinds=None):
    """MyokitScope models through import -> save -> reload -> rhs (-> back to Myokit); kinds: problem kinds reported."""
    cfg = tlc.make_cfg(constants={"NumLex": "<- NumLexDef", "BigToks": "{}"}, invariants=["C15_WellDefined", "Emit"])
    res = tlc.run_tlc("MyokitScope", cfg, workers=chk.nproc, timeout=900)
    recs = res.records
    res.records = []
    chk.add_tlc(res)
    if not recs:
        raise core.MachineryFailure("MyokitScope emitted nothing")
    if chk.tier == "quick":
        recs = random.Random(chk.seed).sample(recs, n_quick)
    out = myokitcase.replay(recs, chk.nproc)
    kept = [o for o in out if not o["discarded"]]
    chk.replayed += len(kept)
    chk.extra["myokit_corpus"] = {"models": len(out), "kept": len(kept), "discarded_rendering": len(out) - len(kept),
                                  "compared": sum(o["compared"] for o in out),
                                  "compared_with_the_unsaved_model": sum(o.get("unsaved_compared", 0) for o in out),
                                  "discard_reasons": {}}
    for o in out:
        if o["discarded"]:
            k = o["discarded"].split(":")[0] + ":" + o["discarded"].split(":", 1)[1][:70]
            chk.extra["myokit_corpus"]["discard_reasons"][k] = chk.extra["myokit_corpus"]["discard_reasons"].get(k, 0) + 1
    if len(kept) < 0.9 * len(out):
        raise core.MachineryFailure(f"{len(out) - len(kept)} of {len(out)} generated Myokit models were discarded: "
                                    f"{chk.extra['myokit_corpus']['discard_reasons']}")
    if chk.extra["myokit_corpus"]["compared_with_the_unsaved_model"] == 0:
        raise core.MachineryFailure("no value of an imported model was compared before saving / after reload")
    for o in out:
        for p in o["problems"]:
            if kinds is not None and p["kind"] not in kinds:
                continue
            chk.violation(f"{pid}:{p['kind']}:{p.get('state', p.get('name', ''))}", {**o, "problem": p},
                          f"Myokit import: {p['kind']} " + str({k: v for k, v in p.items() if k != 'kind'})[:240])
    return kept


def main(chk: core.Check, replay):
    if replay:
        return core.replay_generic(chk, replay)
    kept = myokit_corpus(chk, "C15")
    chk.sample({"mmt": kept[0]["mmt"]})
    repo_files(chk)


if __name__ == "__main__":
    core.main_wrapper(main, "C15")
