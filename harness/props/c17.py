"""C17 - comments, layout and annotations are inert."""
from .. import core, tlc, layoutdeco, modelcase
from .structural import CONSTS


def main(chk: core.Check, replay):
    if replay:
        return core.replay_generic(chk, replay)
    quick = chk.tier == "quick"
    consts = dict(CONSTS, NInter=1, FreeSchedule=False, EmitMod=0, ExtraLayouts='{"headed"}', BaseMod=307 if quick else 97)
    cfg = tlc.make_cfg(spec="DSpec", constants=consts, invariants=["C17_Inert", "DEmit"])
    res = tlc.run_tlc("MC_Layout", cfg, workers=chk.nproc, timeout=1200, constants_for_summary=consts)
    recs = res.records
    res.records = []
    chk.add_tlc(res)
    if not recs:
        raise core.MachineryFailure("MC_Layout emitted nothing")
    base = {}
    for r in recs:
        base.setdefault(modelcase.render_text(r["blocks"]), []).append(r)
    # the expectations of a base model are emitted once (with its "indent" decoration)
    for t, lst in base.items():
        cases = [r["cases"] for r in lst if r["cases"]]
        if not cases:
            raise core.MachineryFailure("a base model without expectations")
        for r in lst:
            r["cases"] = cases[0]
    headed = [k for k in sorted(base) if 'expressions("M")' in k]
    split = [k for k in sorted(base) if 'expressions("' in k and k not in headed]
    other = [k for k in sorted(base) if 'expressions("' not in k]
    n = 1 if quick else 8
    keys = headed[:n] + split[:n] + other[:n]
    if not (headed and split and other):
        raise core.MachineryFailure("a component layout has no base model")
    use = [r for k in keys for r in base[k]]
    out = layoutdeco.replay(use, chk.nproc)
    chk.replayed += len(out)
    places = {}
    for o in out:
        p = places.setdefault(o["deco"]["place"], {"texts": 0, "problems": 0})
        p["texts"] += 1
        for pr in o["problems"]:
            p["problems"] += 1
            s = o["string"]
            chk.violation(f"C17:{pr['kind']}:{o['deco']['place']}:{s!r}", {**o, "problem": pr},
                          f"decoration {o['deco']['place']} with comment text {s!r}: {pr['kind']} "
                          f"{pr.get('message', '')}{pr.get('diff', '')}"[:300])
    chk.extra["decorations"] = {"base_models": len(keys), "multi_component_base_models": len(split[:n]), "one_headed_component_base_models": len(headed[:n]),
                                "comment_strings": len(layoutdeco.STRINGS), "by_place": places}
    chk.sample({"decorated_text": out[len(out) // 2]["text"], "decoration": out[len(out) // 2]["deco"]})
    # the file-level grammar (OdeFile.tla): token strings written on one line / one token per line / without comments
    from .. import filecase
    filecase.run(chk, "C17")


if __name__ == "__main__":
    core.main_wrapper(main, "C17")
