"""C19 - model identifiers never collide with names the generated code uses itself."""
from .. import core, tlc, identcase
from . import tracesleg


def main(chk: core.Check, replay):
    if replay:
        return core.replay_generic(chk, replay)
    consts = {"NumLex": "<- NumLexDef", "BigToks": "{}", "NameOrder": "<- NameOrderDef", "ReservedCheck": True}
    cfg = tlc.make_cfg(constants=consts, invariants=["C19_NoCapture", "Emit"])
    res = tlc.run_tlc("MC_Ident", cfg, workers=8, timeout=600, constants_for_summary=consts)
    recs = res.records
    res.records = []
    chk.add_tlc(res)
    if not recs:
        raise core.MachineryFailure("MC_Ident emitted nothing")
    out = identcase.replay(recs, ("numpy", "jax", "c"), chk.nproc)
    chk.replayed += len(out)
    summary = {}
    for o in out:
        k = o["outcome"].split(":")[0]
        summary[k] = summary.get(k, 0) + 1
        for p in o["problems"]:
            chk.violation(f"C19:{p['kind']}:{o['id']}:{o['role']}:{o['backend']}:{p.get('fn', '')}", {**o, "problem": p},
                          f"identifier `{o['id']}` as {o['role']} in the {o['backend']} backend: {p['kind']} "
                          f"{p.get('fn', '')} {p.get('message', '')}{(' got ' + repr(p.get('got')) + ' want ' + repr(p.get('want'))) if 'got' in p else ''}"[:300])
    # the expectations must be defined, or nothing is compared (numbers of the model are chosen for that)
    undefined = [k for r in recs[:1] for k, v in r["den"].items() if v["k"] == "u"] + [k for r in recs[:1] for k, v in r["euler"].items() if v["k"] == "u"]
    if undefined:
        raise core.MachineryFailure(f"MC_Ident: expectation undefined for {undefined}")
    spec_caps = sorted({r["id"] for r in recs if r["spec_captures"]})
    accepted_caps = sorted({o["id"] for o in out if o["outcome"] == "generated"} & set(spec_caps))
    cmpd, undef = sum(o.get("compared", 0) for o in out), sum(o.get("undefined", 0) for o in out)
    if cmpd == 0 or undef > cmpd // 4:
        raise core.MachineryFailure(f"identifier corpus: {cmpd} values compared, {undef} without a defined expectation")
    chk.extra["identifier_values"] = {"compared": cmpd, "undefined": undef}
    chk.extra["identifiers"] = {"universe": len({r["id"] for r in recs}), "triples": len(out), "outcomes": summary,
                                "spec_predicts_capture_without_check": spec_caps,
                                "predicted_capturing_but_accepted_by_loader": accepted_caps}
    chk.sample({"identifier": out[0]["id"], "role": out[0]["role"], "backend": out[0]["backend"], "outcome": out[0]["outcome"],
                "text": out[0]["text"]})
    if chk.tier == "thorough":
        c2 = dict(consts, ReservedCheck=False)
        r2 = tlc.run_tlc("MC_Ident", tlc.make_cfg(constants=c2, invariants=["C19_NoCapture"]), workers=4, timeout=300)
        chk.extra["design_sensitivity"] = {"without_reserved_check_C19_NoCapture_violated": bool(r2.violations)}
    # emitted code of the repository's models: no name is bound twice, no formal is rebound (rule redefinition)
    tracesleg.run(chk, "C19", schemes=("explicit_euler",))


if __name__ == "__main__":
    core.main_wrapper(main, "C19")
