"""C13 - a component split yields complementary sub-models that reproduce the full model."""
from .. import core, tlc, splitcase, modelcase
from .structural import CONSTS, model_sig
from . import tracesleg

INVS = ["C13_MissingExact", "C13_StatesPartition", "C13_Recompose", "C13_MissingValues", "EmitSplit"]


def split_corpus(chk, pid, backends, n, only=None):
    """Split records (exhaustive 1 intermediate + simulated 3 intermediates) replayed for the given backends."""
    quick = chk.tier == "quick"
    consts = dict(CONSTS, NInter=1, FreeSchedule=False, EmitMod=29 if quick else 7)
    res = tlc.run_tlc("MC_Struct", tlc.make_cfg(constants=consts, invariants=INVS), workers=chk.nproc, timeout=3000, constants_for_summary=consts)
    recs = res.records
    res.records = []
    chk.add_tlc(res)
    consts3 = dict(CONSTS, NInter=3, FreeSchedule=False, EmitMod=3)
    res3 = tlc.run_tlc("MC_Struct", tlc.make_cfg(constants=consts3, invariants=["C13_MissingExact", "EmitSplit"]), workers=chk.nproc,
                       timeout=900, simulate={"num": 10 if quick else 60, "depth": 8, "seed": chk.seed + 5}, constants_for_summary=consts3)
    chk.add_tlc(res3)
    recs += res3.records
    res3.records = []
    import random
    uniq = list({modelcase.render_text(r["blocks"]): r for r in recs}.values())
    random.Random(chk.seed).shuffle(uniq)
    for backend in backends:
        stats, bad = splitcase.replay(uniq[:n], backend, chk.nproc)
        chk.replayed += stats["halves"]
        chk.extra.setdefault("split_corpus", []).append({"backend": backend, **stats, "mismatch_records": len(bad)})
        for b in bad:
            if only is not None and not only(b):
                continue
            sig = f"{pid}:{backend}:{b['tag']}:{b.get('half', '')}:{b.get('fn', b.get('exception', ''))}:model={model_sig(b.get('text', ''))}"
            chk.violation(sig, b, f"{backend} split ({b.get('half')} of component {b.get('component')}): {b['tag']} "
                          + str({k: v for k, v in b.items() if k not in ('text', 'tag', 'backend', 'half', 'component')})[:220])


def main(chk: core.Check, replay):
    if replay:
        return core.replay_generic(chk, replay)
    quick = chk.tier == "quick"
    consts = dict(CONSTS, NInter=1 if quick else 2, FreeSchedule=False, EmitMod=29 if quick else 499)
    cfg = tlc.make_cfg(constants=consts, invariants=INVS)
    res = tlc.run_tlc("MC_Struct", cfg, workers=chk.nproc, timeout=3000, constants_for_summary=consts)
    recs = res.records
    res.records = []
    chk.add_tlc(res)
    # larger models (3 intermediates: several exported quantities per half) by simulation
    consts3 = dict(CONSTS, NInter=3, FreeSchedule=False, EmitMod=3)
    res3 = tlc.run_tlc("MC_Struct", tlc.make_cfg(constants=consts3, invariants=["C13_MissingExact", "EmitSplit"]), workers=chk.nproc,
                       timeout=900, simulate={"num": 10 if quick else 120, "depth": 8, "seed": chk.seed + 5},
                       constants_for_summary=consts3)
    chk.add_tlc(res3)
    seen = {modelcase.render_text(r["blocks"]) for r in recs}
    for r in res3.records:
        t = modelcase.render_text(r["blocks"])
        if t not in seen:
            seen.add(t)
            recs.append(r)
    res3.records = []
    if not recs:
        raise core.MachineryFailure("no split model emitted")
    import random
    random.Random(chk.seed).shuffle(recs)
    recs = recs[: (260 if quick else 3000)]
    for backend, n in (("numpy", len(recs)), ("jax", 60 if quick else 400), ("c", 40 if quick else 300)):
        stats, bad = splitcase.replay(recs[:n], backend, chk.nproc)
        chk.replayed += stats["halves"]
        chk.extra.setdefault("split_corpus", []).append({"backend": backend, **stats, "mismatch_records": len(bad)})
        if stats["compared"] == 0:
            raise core.MachineryFailure(f"split corpus ({backend}): nothing compared")
        for b in bad:
            sig = f"C13:{backend}:{b['tag']}:{b.get('half', '')}:{b.get('fn', b.get('exception', ''))}:model={model_sig(b.get('text', ''))}"
            chk.violation(sig, b, f"{backend} split ({b.get('half')} of component {b.get('component')}): {b['tag']} "
                          + str({k: v for k, v in b.items() if k not in ('text', 'tag', 'backend', 'half', 'component')})[:220])
    chk.sample({"model_text": modelcase.render_text(recs[0]["blocks"]), "halves": recs[0]["halves"]})
    # the repository's split example: ORdmm_Land, component "mechanics" - emitted code of both halves trace-validated
    if not quick:
        tracesleg.run_split(chk, "C13")


if __name__ == "__main__":
    core.main_wrapper(main, "C13")
