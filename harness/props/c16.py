"""C16 - singularity removal changes a model only at its removable singular points."""
import concurrent.futures as cf

from .. import core, tlc, singcase
from .c01 import shape_of


def gen(fam, workers):
    consts = {"NumLex": "<- NumLexDef", "BigToks": "{}", "Fam": fam}
    cfg = tlc.make_cfg(constants=consts, invariants=["C16_AgreesOffSingular", "C16_TextRoundTrip", "Emit", "EmitHeader"])
    return tlc.run_tlc("MC_Sing", cfg, workers=workers, timeout=600, constants_for_summary=consts)


def main(chk: core.Check, replay):
    if replay:
        return core.replay_generic(chk, replay)
    with cf.ThreadPoolExecutor(4) as ex:
        results = list(ex.map(lambda f: gen(f, 4), [1, 2, 3, 4]))
    header, recs = None, []
    for r in results:
        for rec in r.records:
            if rec.get("header"):
                header = rec
            else:
                recs.append(rec)
        r.records = []
        chk.add_tlc(r)
    if not recs or header is None:
        raise core.MachineryFailure("MC_Sing emitted nothing")
    if chk.tier == "quick":
        import random
        rnd = random.Random(chk.seed)
        one = [r for r in recs if r["nsing"] <= 1]
        many = [r for r in recs if r["nsing"] > 1]
        # the inputs of the listed known findings are always part of the run
        listed = {k.get("signature", "") for k in chk.known}
        pinned = [r for r in one if f"C16:hang:{shape_of(' '.join(r['toks']))}" in listed]
        recs = pinned + rnd.sample(one, min(150, len(one))) + rnd.sample(many, min(60, len(many)))
        recs = list({" ".join(r["toks"]): r for r in recs}.values())
    stats, bad = singcase.replay(recs, header, chk.nproc)
    chk.replayed += stats["expressions"]
    chk.extra["singularity_corpus"] = stats
    if stats["compared_on_singular"] == 0:
        raise core.MachineryFailure("no input on a singular point was compared")
    for b in bad:
        if b["kind"] == "value" and b["nsing"] >= 2:
            sig = "C16:value:several-removable-singularities-in-one-expression"
        elif b["kind"] == "error" and b["exception"] == "TimeoutError":
            sig = f"C16:hang:{shape_of(b['text'])}"
        else:
            sig = f"C16:{b['kind']}:nsing={b['nsing']}:{shape_of(b['text'])}"
        if b.get("via"):
            sig += ":through-intermediate"
        if b["kind"] == "value":
            what = (f"remove_singularities of `{b['text']}`{' (argument through an intermediate)' if b.get('via') else ''} at x={b['x']}, y={b['y']} ({'on' if b['on_singular'] else 'off'} a singular point): "
                    f"returned {b['got']!r}, expected {b['want']!r} (the original model gives {b['original_model_gives']!r})")
        else:
            what = f"remove_singularities of `{b['text']}`: {b['kind']} {b.get('exception', '')} {b.get('message', '')}"[:300]
        chk.violation(sig, b, what)
    chk.sample({"expression": " ".join(recs[0]["toks"]), "removable_singularities": recs[0]["nsing"],
                "grid_point": list(recs[0]["grid"].items())[0]})


if __name__ == "__main__":
    core.main_wrapper(main, "C16")
