"""C04 - see DESIGN.md section 6."""
from .. import core
from . import structural, tracesleg


def main(chk: core.Check, replay):
    if replay:
        return core.replay_generic(chk, replay)
    structural.run(chk, "C04", layout=True)
    structural.run(chk, "C04", backend="jax", quick_models=60, thorough_models=600, layout=True)
    structural.run(chk, "C04", backend="c", quick_models=60, thorough_models=600, layout=True)
    tracesleg.run(chk, 'C04')


if __name__ == "__main__":
    core.main_wrapper(main, "C04")
