"""C04 - see DESIGN.md section 6."""
from .. import core
from . import structural, tracesleg


def suite_traces(chk):
    """Executions of the repository's own test-suite (hooks on), validated against TraceEmit."""
    from .. import suitetraces, traces, gx
    events, tail = suitetraces.collect(gx.REPO)
    tr = suitetraces.to_traces(events)
    if not tr:
        # no Emit hook fired inside the suite (generator restructured, hook call lost): this source of traces is
        # empty; the same rules are evaluated on the traces tracesleg.run takes through the public API
        chk.extra["test_suite_traces"] = {"emit_events": 0, "note": "the test-suite left no Emit event: " + tail[-120:]}
        return
    res, verdicts = traces.validate_emit_traces(tr, chk.nproc)
    chk.add_tlc(res)
    rules = tracesleg.RULES_OF["C04"]
    acc = 0
    for t, v in zip(tr, verdicts):
        rel = [f for f in (v or []) if f["rule"] in rules]
        acc += not rel
        for f in rel:
            chk.violation(f"C04:suite-trace:{f['rule']}:{t['backend']}:{t['fn']}", {"trace": t["id"], "line": f["line"],
                          "statement": t["stmts"][f["line"] - 1], "state_index": t["state_index"]},
                          f"code generated inside the repository's test-suite ({t['backend']} {t['fn']}): rule {f['rule']} violated")
    chk.traces += len(tr)
    chk.extra["test_suite_traces"] = {"emit_events": len([e for e in events if e['ev'] == 'Emit']), "traces": len(tr), "accepted": acc}


def main(chk: core.Check, replay):
    if replay:
        return core.replay_generic(chk, replay)
    structural.run(chk, "C04", layout=True)
    structural.run(chk, "C04", backend="jax", quick_models=60, thorough_models=600, layout=True)
    structural.run(chk, "C04", backend="c", quick_models=60, thorough_models=600, layout=True)
    extra = [(f"gen{i}", t) for i, t in enumerate(getattr(chk, "last_structural_texts", [])[:24])]
    tracesleg.run(chk, 'C04', extra_models=extra)
    suite_traces(chk)


if __name__ == "__main__":
    core.main_wrapper(main, "C04")
