"""C20 - symbolic right-hand side and Jacobian matrices are those of the model."""
from .. import core, tlc, symcase, modelcase


def main(chk: core.Check, replay):
    if replay:
        return core.replay_generic(chk, replay)
    consts = {"NumLex": "<- NumLexDef", "BigToks": "{}", "NameOrder": "<- NameOrderDef", "MaxD": 24 if chk.tier == "quick" else 45}
    cfg = tlc.make_cfg(constants=consts, invariants=["C20_Terminates", "C20_RhsExpanded", "C20_WellFormed", "Emit"])
    res = tlc.run_tlc("MC_Depth", cfg, workers=chk.nproc, timeout=2400, stack="1g", constants_for_summary=consts)
    recs = res.records
    res.records = []
    chk.add_tlc(res)
    if not recs:
        raise core.MachineryFailure("MC_Depth emitted nothing")
    names = recs[0]["names"]
    if list(names) != sorted(names):
        raise core.MachineryFailure("NameOrder of MC_Depth is not sorted()")
    stats, bad = symcase.replay(recs, chk.nproc)
    chk.replayed += stats["models"]
    chk.extra["symbolic_corpus"] = {**stats, "max_depth": max(r["depth"] for r in recs), "mismatch_records": len(bad)}
    if stats["compared"] == 0 and not bad:
        raise core.MachineryFailure("nothing compared")
    for b in bad:
        cls = "deep" if b.get("depth", 0) >= 20 else "shallow"
        sig = f"C20:{b['tag']}:{b.get('exception', b.get('name', ''))}:{b.get('shape')}:{cls}"
        chk.violation(sig, b, f"{b['tag']} (shape {b.get('shape')}, dependency depth {b.get('depth')}): "
                      + str({k: v for k, v in b.items() if k not in ('text', 'tag', 'shape', 'depth')})[:200])
    chk.sample({"model_text": modelcase.render_text(recs[0]["blocks"]), "expected": recs[0]["cases"][0]})


if __name__ == "__main__":
    core.main_wrapper(main, "C20")
