"""C20 - symbolic right-hand side and Jacobian matrices are those of the model."""
from .. import core, tlc, symcase, modelcase


def main(chk: core.Check, replay):
    if replay:
        return core.replay_generic(chk, replay)
    consts = {"NumLex": "<- NumLexDef", "BigToks": "{}", "NameOrder": "<- NameOrderDef", "MaxD": 24 if chk.tier == "quick" else 45}
    cfg = tlc.make_cfg(constants=consts, invariants=["C20_Terminates", "C20_RhsExpanded", "C20_WellFormed", "Emit"])
    res = tlc.run_tlc("MC_Depth", cfg, workers=chk.nproc, timeout=2400, stack="1g", constants_for_summary=consts)
    recs = res.records
    res.records = []
    chk.add_tlc(res)
    if not recs:
        raise core.MachineryFailure("MC_Depth emitted nothing")
    names = recs[0]["names"]
    if list(names) != sorted(names):
        raise core.MachineryFailure("NameOrder of MC_Depth is not sorted()")
    stats, bad = symcase.replay(recs, chk.nproc)
    chk.replayed += stats["models"]
    chk.extra["symbolic_corpus"] = {**stats, "max_depth": max(r["depth"] for r in recs), "mismatch_records": len(bad)}
    if stats["compared"] == 0 and not bad:
        raise core.MachineryFailure("nothing compared")
    for b in bad:
        cls = "deep" if b.get("depth", 0) >= 20 else "shallow"
        sig = f"C20:{b['tag']}:{b.get('exception', b.get('name', ''))}:{b.get('shape')}:{cls}"
        chk.violation(sig, b, f"{b['tag']} (shape {b.get('shape')}, dependency depth {b.get('depth')}): "
                      + str({k: v for k, v in b.items() if k not in ('text', 'tag', 'shape', 'depth')})[:200])
    chk.sample({"model_text": modelcase.render_text(recs[0]["blocks"]), "expected": recs[0]["cases"][0]})
    # structural models (unused intermediates, components, several parameters): row i of rhs_matrix is the rate of the
    # state that states_matrix - and the generated code - put at position i, with the specification's value
    from . import structural
    r1 = structural.run_tlc_struct(chk, ["C01_RhsRefinesDen"], 1 if chk.tier == "quick" else 2, 37 if chk.tier == "quick" else 211)
    chk.add_tlc(r1)
    srecs = r1.records
    r1.records = []
    if not srecs:
        raise core.MachineryFailure("MC_Struct emitted no model")
    st2, bad2 = symcase.replay_struct(srecs, chk.nproc)
    chk.replayed += st2["models"]
    chk.extra["symbolic_structural_corpus"] = {**st2, "mismatch_records": len(bad2)}
    if st2["compared"] == 0:
        raise core.MachineryFailure("structural symbolic corpus: nothing compared")
    for b in bad2:
        sig = f"C20:{b['tag']}:{b.get('exception', b.get('name', ''))}:structural:model={structural.model_sig(b.get('text', ''))}"
        chk.violation(sig, b, f"{b['tag']} (structural model): " + str({k: v for k, v in b.items() if k not in ('text', 'tag', 'shape', 'depth')})[:200])


if __name__ == "__main__":
    core.main_wrapper(main, "C20")
