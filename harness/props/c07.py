"""C07 - hybrid Rush-Larsen applies RL to exactly the stiff states and Euler to the rest."""
from .. import core
from . import structural, tracesleg
from .c06 import run_scheme_corpus


def main(chk: core.Check, replay):
    if replay:
        return core.replay_generic(chk, replay)
    # batches of 12 states with a random stiff subset (plus a foreign name) per generated module
    run_scheme_corpus(chk, "C07", {"hybrid_rush_larsen", "generate"})
    structural.run(chk, "C07")
    # emitted hybrid / generalized Rush-Larsen code of the repository's models: exponential update for exactly the stiff states
    tracesleg.run(chk, "C07", backends=("python", "c"), schemes=("generalized_rush_larsen", "hybrid_rush_larsen"))


if __name__ == "__main__":
    core.main_wrapper(main, "C07")
