"""C02 - generated C code compiles and computes the same values as the model defines."""
from .. import core, exprcorpus
from . import structural, tracesleg
from .c01 import run_expr_corpus
from .c06 import run_scheme_corpus


def main(chk: core.Check, replay):
    if replay:
        return core.replay_generic(chk, replay)
    quick = chk.tier == "quick"
    # gcc in its default mode; a model that does not compile is an error entry (tag error)
    run_expr_corpus(chk, "C02", "c", exprcorpus.QUICK_LEVELS if quick else exprcorpus.THOROUGH_LEVELS,
                    cap=1200 if quick else 8000, batch=100)
    run_scheme_corpus(chk, "C02", {"explicit_euler", "generalized_rush_larsen", "hybrid_rush_larsen", "generate"},
                      backend="c", fams=[3, 4] if quick else [1, 2, 3, 4])
    structural.run(chk, "C02", quick_models=120, thorough_models=1500, layout=True)
    tracesleg.run(chk, "C02")


if __name__ == "__main__":
    core.main_wrapper(main, "C02")
