"""Leg L3 shared by several properties: executions of the real generator on the repository's own
models (and on any extra model texts), recorded through the hooks, validated by TraceEmit / TraceSort."""
from __future__ import annotations

import concurrent.futures as cf
import copy
import random

from .. import core, traces, tlc

RULES_OF = {
    "C01": {"use-before-def", "topological", "complete"},
    "C02": None,   # every rule, backend c
    "C03": None,   # every rule, backend jax
    "C04": {"unpack-slot", "store-slot", "store-twice", "lengths-stored", "lengths-returned", "store-before-alloc"},
    "C05": {"store-slot", "store-twice", "lengths-stored"},
    "C06": {"scheme-guard", "scheme-choice", "store-slot"},
    "C07": {"scheme-choice", "scheme-guard", "store-slot"},
    "C12": {"use-before-def", "unpack-slot", "store-slot", "lengths-stored", "lengths-returned", "topological", "complete"},
    "C13": {"unpack-slot", "store-slot", "use-before-def", "lengths-stored", "lengths-returned"},
    "C19": {"redefinition"},
}
BACKENDS_OF = {"C02": ("c",), "C03": ("jax",), "C01": ("python",), "C05": ("python", "jax", "c")}


def _record(args):
    text, mid, backends, kw = args
    try:
        tr, sorts, dec, _ = traces.record_model(text, mid, backends=backends, **kw)
        return mid, tr, traces.sort_groups(sorts, mid), dec, None
    except Exception as ex:  # noqa: BLE001
        import traceback
        return mid, [], [], [], f"{type(ex).__name__}: {ex} {traceback.format_exc()[-400:]}"


def corrupt(trace, rnd):
    """Alter one field of one recorded statement (self-test of the binding)."""
    t = copy.deepcopy(trace)
    idx = [i for i, s in enumerate(t["stmts"]) if s["k"] in ("store", "unpackS", "def")]
    if not idx:
        return None, None
    guarded = [i for i in idx if t["stmts"][i]["k"] == "store" and t["stmts"][i].get("guard", {}).get("present")]
    i = rnd.choice(guarded) if guarded and t.get("check_choice") and rnd.random() < 0.5 else rnd.choice(idx)
    s = t["stmts"][i]
    if i in guarded and t.get("check_choice"):
        s["guard"]["consts"] = ["0.0"]
        what = "guard threshold replaced by 0"
    elif s["k"] == "store":
        s["slot"] = s["slot"] + 1
        what = "store slot + 1"
    elif s["k"] == "unpackS":
        s["slot"] = s["slot"] + 1
        what = "unpack slot + 1"
    else:
        # drop the definition: a later use must be reported
        del t["stmts"][i]
        what = "definition dropped"
    t["id"] += ":corrupted"
    return t, what


def run(chk: core.Check, pid: str, extra_models=(), backends=None, schemes=None):
    assert traces.hooks_alive(), "hooks are not enabled"
    rules = RULES_OF.get(pid)
    backends = backends or BACKENDS_OF.get(pid, ("python", "jax", "c"))
    kw = {}
    if schemes is not None:
        kw["schemes"] = schemes
    jobs = []
    for f in traces.repo_models(chk.tier):
        for b in backends:
            jobs.append((f.read_text(), f.stem, (b,), kw))
    for mid, text in extra_models:
        for b in backends:
            jobs.append((text, mid, (b,), kw))
    alltr, allsort, alldec = [], [], []
    with cf.ProcessPoolExecutor(max_workers=chk.nproc) as ex:
        for mid, tr, sg, dec, err in ex.map(_record, jobs):
            if err:
                chk.violation(f"{pid}:trace:record:{mid}", {"model": mid, "error": err},
                              f"generation failed while recording traces of {mid}: {err[:160]}")
                continue
            alltr += tr
            allsort += sg
            alldec += dec
    # one sort group per model is enough (every backend sorts the same graph)
    seen, sorts = set(), []
    for g in allsort:
        key = (g["model"], len(g["adds"]), tuple(g["order"]))
        if key not in seen:
            seen.add(key)
            sorts.append(g)
    res, verdicts = traces.validate_emit_traces(alltr, chk.nproc)
    if res is None:
        raise core.MachineryFailure("no emit trace recorded")
    chk.add_tlc(res)
    missing = sum(1 for v in verdicts if v is None)
    if missing:
        raise core.MachineryFailure(f"{missing} traces without a verdict")
    accepted = 0
    for t, v in zip(alltr, verdicts):
        relevant = [f for f in v if rules is None or f["rule"] in rules]
        if not relevant:
            accepted += 1
            continue
        for f in relevant:
            st = t["stmts"][f["line"] - 1]
            chk.violation(f"{pid}:trace:{f['rule']}:{t['backend']}:{t['fn']}:ru={t['remove_unused']}:{t['model']}",
                          {"trace": t["id"], "line": f["line"], "rule": f["rule"], "statement": st,
                           "state_index": t["state_index"]},
                          f"generated {t['backend']} {t['fn']} of {t['model']} (remove_unused={t['remove_unused']}): "
                          f"statement {f['line']} {st} violates rule {f['rule']}")
    chk.traces += len(alltr)
    sres, sverd = traces.validate_sort_traces(sorts, chk.nproc)
    notes = []
    if sres is not None:
        chk.add_tlc(sres)
        for g, v in zip(sorts, sverd):
            if v is None:
                raise core.MachineryFailure("sort trace without a verdict")
            for rule in v:
                if rule == "refines":
                    notes.append(f"{g['id']}: order differs from the Graphlib specification (conformance note)")
                elif rules is None or rule in rules:
                    chk.violation(f"{pid}:trace:sort:{rule}:{g['model']}", {"trace": g["id"], "order": g["order"][:50]},
                                  f"sort_assignments of {g['model']}: rule {rule} violated")
        chk.traces += len(sorts)
    info = {"emit_traces": len(alltr), "emit_traces_accepted": accepted, "emit_traces_uninterpretable": res.uninterpretable[:10],
            "emit_traces_uninterpretable_n": len(res.uninterpretable), "notes_by_rule": res.note_counts, "statements": sum(len(t["stmts"]) for t in alltr),
            "sort_traces": len(sorts), "scheme_decisions_logged": len(alldec), "conformance_notes": notes[:10],
            "models": sorted({t["model"] for t in alltr}), "backends": list(backends)}
    # binding self-test: corrupted traces must be rejected (thorough tier; never fails the check)
    if chk.tier == "thorough" and alltr:
        rnd = random.Random(chk.seed)
        cor = []
        for t in rnd.sample(alltr, min(12, len(alltr))):
            c, what = corrupt(t, rnd)
            if c:
                cor.append((c, what))
        cres, cverd = traces.validate_emit_traces([c for c, _ in cor], chk.nproc)
        rejected = sum(1 for v in cverd if v)
        info["selftest_corrupted_traces_rejected"] = f"{rejected}/{len(cor)}"
    chk.extra.setdefault("trace_leg", []).append(info)
    if alltr:
        t = alltr[0]
        chk.sample({"trace": t["id"], "first_statements": t["stmts"][:4], "state_index": t["state_index"]})
    return info


def run_split(chk: core.Check, pid: str):
    """Trace validation of the emitted code of both halves of the repository's split example."""
    from .. import gx
    f = traces.REPO / "examples" / "split-ode" / "ORdmm_Land.ode"
    ode = gx.load(f.read_text(), name="ORdmm_Land")
    comp = ode.get_component("mechanics")
    halves = {"mechanics": comp.to_ode(), "ep": ode - comp}
    alltr = []
    from gotranx.codegen.python import PythonCodeGenerator, Format as PF
    from gotranx.codegen.c import CCodeGenerator, Format as CF
    for name, half in halves.items():
        other = halves["ep" if name == "mechanics" else "mechanics"]
        for Gen, fmt in ((PythonCodeGenerator, PF.none), (CCodeGenerator, CF.none)):
            cg = Gen(half, format=fmt)
            mon = traces.monitor_index_of(cg) if Gen is PythonCodeGenerator else None
            with traces.Recorder() as rec:
                cg.rhs()
                cg.monitor_values()
                cg.missing_values(dict(other.missing_variables))
            for ev in rec.events:
                if ev["ev"] == "Emit":
                    alltr.extend(traces.emit_event_to_traces(ev, f"ORdmm_Land-{name}", mon))  # assignment names: from the event
    res, verdicts = traces.validate_emit_traces(alltr, chk.nproc)
    chk.add_tlc(res)
    rules = RULES_OF[pid]
    for t, v in zip(alltr, verdicts):
        for fl in (v or []):
            if fl["rule"] in rules:
                chk.violation(f"{pid}:trace:{fl['rule']}:{t['backend']}:{t['fn']}:{t['model']}",
                              {"trace": t["id"], "line": fl["line"], "statement": t["stmts"][fl["line"] - 1]},
                              f"{t['id']}: statement {fl['line']} violates {fl['rule']}")
    chk.traces += len(alltr)
    chk.extra.setdefault("trace_leg", []).append({"split_example_traces": len(alltr)})
