"""C06 - generalized Rush-Larsen step follows the exponential-integrator formula, guarded."""
from .. import core, schemecorpus
from . import structural, tracesleg
from .c01 import shape_of


def gen_class(text):
    return "floor-or-Mod-of-own-state" if ("floor" in text or "Mod" in text) else None


def run_scheme_corpus(chk, pid, tags, backend="numpy", fams=None, schemes=None):
    fams = fams or ([1, 3, 4, 5] if chk.tier == "quick" else [1, 2, 3, 4, 5])
    results, header, recs = schemecorpus.generate(fams, chk.nproc)
    for r in results:
        chk.add_tlc(r)
    if header is None or not recs:
        raise core.MachineryFailure("MC_Scheme emitted nothing")
    stats, bad = schemecorpus.replay(recs, header, backend, chk.nproc, seed=chk.seed, schemes=schemes)
    chk.replayed += stats["templates"]
    chk.extra.setdefault("scheme_corpus", []).append({"backend": backend, "families": fams, **stats})
    if stats["compared"] == 0:
        raise core.MachineryFailure("scheme corpus: nothing compared")
    chk.sample({"rate_of_x": " ".join(recs[0]["toks"]), "delta": recs[0]["delta"],
                "grid_point <<x,a,dt>> = <<1,1,1>>": recs[0]["grid"]["<<1, 1, 1>>"]})
    for b in bad:
        if b["tag"] not in tags:
            continue
        sig = f"{pid}:{backend}:{b['tag']}:{shape_of(b['text'])}:delta={b['delta']}"
        if b["kind"] == "error" and gen_class(b["text"]):
            sig = f"{pid}:{backend}:generate:{gen_class(b['text'])}"
        if b["kind"] == "error":
            what = f"{backend}: generating schemes for rate `{b['text']}` raised {b['exception']}: {b['message'][:140]}"
        else:
            what = (f"{backend} {b['tag']} for dx_dt = `{b['text']}` (delta={b['delta']}, x={b['x']}, a={b['a']}, dt={b['dt']}, "
                    f"f={b['f']}, g={b['g']}) returned {b['got']!r}, the formula gives {b['want']!r}")
        chk.violation(sig, b, what)


def main(chk: core.Check, replay):
    if replay:
        return core.replay_generic(chk, replay)
    run_scheme_corpus(chk, "C06", {"generalized_rush_larsen", "generate"})
    structural.run(chk, "C06")
    # emitted generalized Rush-Larsen code of the repository's models: every exponential update sits behind
    # |linearisation| > delta with the delta that was passed (three different ones), strictly, Euler otherwise
    tracesleg.run(chk, "C06", schemes=("generalized_rush_larsen",))


if __name__ == "__main__":
    core.main_wrapper(main, "C06")
