"""C01 - generated NumPy rhs computes exactly the derivatives the model text defines."""
from __future__ import annotations

import re

from .. import core, exprcorpus, tokens


def shape_of(text: str) -> str:
    """Abstract an expression text: identifiers -> V, numbers -> N (keeps operators and function names)."""
    out = []
    for tok in text.split():
        if re.fullmatch(r"[0-9.][0-9.eE+\-]*", tok):
            out.append("N")
        elif re.fullmatch(r"[A-Za-z_]\w*", tok) and tok not in exprcorpus_keywords():
            out.append("V")
        else:
            out.append(tok)
    return "".join(out)


def exprcorpus_keywords():
    return {"exp", "log", "ln", "sqrt", "sin", "cos", "tan", "asin", "acos", "atan", "abs", "Abs", "floor", "Mod",
            "Conditional", "ContinuousConditional", "Lt", "Gt", "Le", "Ge", "Eq", "Not", "And", "Or", "pi"}


def report_bad(chk: core.Check, pid: str, bad, leg: str):
    for b in bad:
        sig = f"{pid}:{b['backend']}:{b['kind']}:{shape_of(b['text'])}"
        what = (f"{b['backend']} {leg}: `{b['text']}` " +
                (f"raised {b['exception']}: {b['message'][:120]}" if b["kind"] == "error"
                 else f"returned {b['got']!r}, the model text means {b['want']!r} at {b['env']}"))
        chk.violation(sig, b, what)


def run_expr_corpus(chk: core.Check, pid: str, backend: str, levels, cap: int, styles=("tmin", "tfull"), batch=120):
    results, header, cases = exprcorpus.generate(levels, chk.nproc)
    for r in results:
        chk.add_tlc(r)
    if header is None or not cases:
        raise core.MachineryFailure("MC_Expr produced no cases")
    total = len(cases)
    cases = exprcorpus.sample(cases, cap, chk.seed)
    stats, bad = exprcorpus.replay(cases, header["envs"], backend, chk.nproc, batch=batch, styles=styles)
    chk.replayed += stats["entries"]
    chk.extra.setdefault("expr_corpus", []).append({"backend": backend, "generated_cases": total, **stats})
    if stats["points_compared"] == 0:
        raise core.MachineryFailure("expression corpus: nothing compared")
    for c in cases[:3]:
        chk.sample({"text": " ".join(c["tmin"]), "inputs": header["envs"][0],
                    "expected": c["vals"][0]})
    report_bad(chk, pid, bad, "expression corpus")
    return stats


def run_tokens(chk: core.Check, pid: str, maxlen: int, alpha: int, backend="numpy"):
    res, header, acc, rej = tokens.generate(maxlen, alpha, chk.nproc)
    chk.add_tlc(res)
    if header is None or not acc:
        raise core.MachineryFailure("MC_Tokens produced no cases")
    wrongly, lark_ok = tokens.check_rejects(rej, chk.nproc)
    for t in wrongly:
        chk.violation(f"{pid}:grammar:accepts:{shape_of(t)}", {"text": t},
                      f"the loader accepts and generates code for `{t}`, which the documented grammar rejects")
    stats, bad = tokens.check_accepts(acc, header["envs"], chk.nproc, backend)
    chk.replayed += len(acc) + len(rej)
    chk.extra.setdefault("token_strings", []).append(
        {"maxlen": maxlen, "alphabet": alpha, "accepted_by_spec": len(acc), "rejected_by_spec": len(rej),
         "rejected_strings_lark_accepts": lark_ok, "wrongly_accepted": len(wrongly), **stats})
    chk.sample({"tokens": acc[len(acc) // 2]["toks"], "expected": acc[len(acc) // 2]["vals"]})
    report_bad(chk, pid, bad, "token strings")


def main(chk: core.Check, replay):
    if replay:
        return replay_one(chk, replay)
    if chk.tier == "quick":
        run_expr_corpus(chk, "C01", "numpy", exprcorpus.QUICK_LEVELS, cap=3000, styles=("tmin", "tfull", "tmin-compact"))
        run_tokens(chk, "C01", 5, 1)
        run_tokens(chk, "C01", 4, 2)
    else:
        run_expr_corpus(chk, "C01", "numpy", exprcorpus.THOROUGH_LEVELS, cap=10 ** 9, styles=("tmin", "tfull", "tmin-compact"))
        run_tokens(chk, "C01", 5, 1)
        run_tokens(chk, "C01", 5, 2)
    from . import structural, tracesleg
    structural.run(chk, "C01")
    tracesleg.run(chk, "C01", schemes=())


def replay_one(chk, path):
    return core.replay_generic(chk, path)


def _replay_one_old(chk, path):
    import json
    from .. import resid
    d = json.load(open(path))["detail"]
    envs = None
    # re-run the single text through the pipeline at the recorded point
    case = {"tmin": d["tokens"], "tfull": d["tokens"], "bool": d["text"].startswith("Conditional(") and False,
            "vals": d.get("vals") or [], "lvl": 0}
    print("replaying", d["text"], "backend", d["backend"])
    from .. import gx
    ode = gx.load(exprcorpus.build_model([d["text"]]))
    print(gx.numpy_code(ode) if d["backend"].startswith("numpy") else "")
    chk.extra["replayed_file"] = path
    chk.states = chk.transitions = 1
    chk.sample(d)


if __name__ == "__main__":
    core.main_wrapper(main, "C01")
