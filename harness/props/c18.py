"""C18 - the command line writes what the API generates and honours its options."""
import os
import shutil
import subprocess
import sys
import tempfile
from pathlib import Path

from .. import core, tlc, clicase


def cellml_case(chk):
    """cellml2ode: the written .ode file is what the API saves; a missing input exits non-zero."""
    from .. import gx
    from typer.testing import CliRunner
    from gotranx.cli import app
    from gotranx.myokit import cellml_to_gotran
    src = gx.REPO / "tests" / "cellml_files" / "noble_1962.cellml"
    d = Path(tempfile.mkdtemp(prefix="cellml-", dir=tlc.scratch_root()))
    try:
        shutil.copy(src, d / "m.cellml")
        old = os.getcwd()
        os.chdir(d)
        try:
            r = CliRunner().invoke(app, ["cellml2ode", "m.cellml", "-o", "out.ode"])
            ok = r.exit_code == 0 and (d / "out.ode").exists()
            if not ok:
                chk.violation("C18:cellml2ode:exit", {"exit": r.exit_code, "exception": str(r.exception)[:200]}, "cellml2ode failed on noble_1962.cellml")
            else:
                cellml_to_gotran(d / "m.cellml").save(d / "api.ode")
                if (d / "out.ode").read_text() != (d / "api.ode").read_text():
                    chk.violation("C18:cellml2ode:text", {}, "cellml2ode wrote a different text than the API")
            r = CliRunner().invoke(app, ["cellml2ode", "missing.cellml"])
            if r.exit_code == 0 or (d / "missing.ode").exists():
                chk.violation("C18:cellml2ode:missing", {"exit": r.exit_code}, "cellml2ode on a missing file exits 0 or writes")
        finally:
            os.chdir(old)
    finally:
        shutil.rmtree(d, ignore_errors=True)
    chk.replayed += 2


def subprocess_case(chk):
    """python -m gotranx in a real subprocess (exit status as the shell sees it)."""
    d = Path(tempfile.mkdtemp(prefix="clisub-", dir=tlc.scratch_root()))
    try:
        (d / "model.ode").write_text(clicase.VALID)
        (d / "bad.ode").write_text(clicase.MODELS["ill-formed"])
        env = dict(os.environ, PYTHONPATH=str(clicase_repo_src()))
        for argv, want_zero, want_file in ((["ode2py", "model.ode", "--format", "none"], True, "model.py"),
                                           (["ode2py", "bad.ode", "--format", "none"], False, "bad.py"),
                                           (["ode2c", "model.ode", "--format", "none", "--to", ".c"], True, "model.c")):
            p = subprocess.run([sys.executable, "-m", "gotranx"] + argv, cwd=d, env=env, capture_output=True, text=True, timeout=120)
            if (p.returncode == 0) != want_zero or (d / want_file).exists() != want_zero:
                chk.violation(f"C18:subprocess:{argv[0]}:{argv[1]}", {"argv": argv, "returncode": p.returncode, "stderr": p.stderr[-300:]},
                              f"python -m gotranx {' '.join(argv)}: exit {p.returncode}, file written: {(d / want_file).exists()}")
            chk.replayed += 1
    finally:
        shutil.rmtree(d, ignore_errors=True)


def clicase_repo_src():
    from .. import gx
    return gx.REPO / "src"


def main(chk: core.Check, replay):
    if replay:
        return core.replay_generic(chk, replay)
    quick = chk.tier == "quick"
    cfg = tlc.make_cfg(constants={"FormatterAvailable": '{"none", "black"}', "EmitMod": 97 if quick else 11},
                       invariants=["C18_InvalidExitsNonZero", "C18_ExitZeroIffWritten", "C18_EffectiveOptions", "EmitSome"],
                       properties=["C18_WriteOnlyAfterSuccess"])
    res = tlc.run_tlc("Cli", cfg, workers=chk.nproc, timeout=900, constants_for_summary={"EmitMod": 97 if quick else 11})
    recs = res.records
    res.records = []
    chk.add_tlc(res)
    if not recs:
        raise core.MachineryFailure("Cli.tla emitted nothing")
    cases = clicase.stratified(recs, 12 if quick else 120, chk.seed)
    falsy = {"delta=0": 0, "stiff=[]": 0, "scheme=[]": 0}
    for c in cases:
        cfgv = c["config"]
        if cfgv["present"] and c["model"] == "valid":
            falsy["delta=0"] += cfgv["delta"] == "0" and any("rush_larsen" in s for s in c["eff"]["scheme"])
            falsy["stiff=[]"] += cfgv["stiff"] == [] and "hybrid_rush_larsen" in c["eff"]["scheme"]
            falsy["scheme=[]"] += cfgv["scheme"] == [] and bool(c["flags"]["scheme"])
    chk.extra["set_but_falsy_config_values_where_they_matter"] = falsy
    if not all(falsy.values()):
        raise core.MachineryFailure(f"no invocation with a set-but-falsy configuration value where it matters: {falsy}")
    out = clicase.replay(cases, chk.nproc)
    chk.replayed += len(out)
    by_cmd = {}
    for o in out:
        c = by_cmd.setdefault(o["case"]["cmd"], {"invocations": 0, "problems": 0})
        c["invocations"] += 1
        for p in o["problems"]:
            c["problems"] += 1
            opt = [a for a in (o["argv"] or []) if a.startswith("-")]
            chk.violation(f"C18:{o['case']['cmd']}:{p['kind']}:{'+'.join(sorted(set(opt)))}:{o['case']['model']}", {**o, "problem": p},
                          f"gotranx {' '.join(o['argv'] or [])} (model {o['case']['model']}): {p['kind']} " + str({k: v for k, v in p.items() if k != 'kind'})[:220])
    chk.extra["invocations"] = by_cmd
    chk.sample({"argv": out[0]["argv"], "config": out[0]["case"]["config"], "model": out[0]["case"]["model"],
                "exit_code": out[0].get("exit_code"), "written": out[0].get("written")})
    cellml_case(chk)
    subprocess_case(chk)


if __name__ == "__main__":
    core.main_wrapper(main, "C18")
