"""C08 replay: faulted model texts from MC_IllFormed through the real loader and generators."""
from __future__ import annotations

import concurrent.futures as cf

from . import modelcase


def _worker(recs):
    from . import gx
    out = []
    for r in recs:
        text = modelcase.render_text(r["blocks"])
        stage, exc = "generated", None
        try:
            ode = gx.load(text)
            stage = "loaded"
            code = gx.numpy_code(ode, ["explicit_euler"])
            gx.c_code(ode)
            stage = "generated"
            ns = gx.exec_module(code)
        except Exception as ex:  # noqa: BLE001
            exc = type(ex).__name__
        out.append({"text": text, "fault": r["fault"], "wellformed": r["wellformed"], "spec_outcome": r["outcome"],
                    "accepted": exc is None, "exception": exc, "stage": stage if exc is None else ("load" if stage == "generated" and exc else stage)})
    return out


def replay(recs, nproc=16):
    chunks = [recs[i::nproc * 2] for i in range(nproc * 2)]
    res = []
    with cf.ProcessPoolExecutor(max_workers=nproc) as ex:
        for o in ex.map(_worker, [c for c in chunks if c]):
            res.extend(o)
    return res
