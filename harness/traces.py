"""Leg L3: record executions of the real code generator through the GOTRANX_VERIF hooks and validate
them against the trace specifications (spec/TraceEmit.tla, spec/TraceSort.tla) with TLC."""
from __future__ import annotations

import json
import os
import zlib
import tempfile
from pathlib import Path

os.environ.setdefault("GOTRANX_VERIF", "1")

from . import tlc, skeleton  # noqa: E402

DELTAS = [1e-8, 0.001, 0.5]
REPO = Path(os.environ.get("VERIF_REPO", "/repo"))


class Recorder:
    """Context manager: events emitted by the hooks while it is active."""

    def __init__(self):
        self.path = None
        self.events = []

    def __enter__(self):
        fd, self.path = tempfile.mkstemp(prefix="trace-", suffix=".ndjson", dir=tlc.scratch_root())
        os.close(fd)
        self._old = os.environ.get("GOTRANX_VERIF_TRACE")
        os.environ["GOTRANX_VERIF_TRACE"] = self.path
        return self

    def __exit__(self, *exc):
        if self._old is None:
            os.environ.pop("GOTRANX_VERIF_TRACE", None)
        else:
            os.environ["GOTRANX_VERIF_TRACE"] = self._old
        with open(self.path) as f:
            self.events = [json.loads(l) for l in f if l.strip()]
        os.unlink(self.path)
        return False


def hooks_alive() -> bool:
    from . import gx  # noqa: F401
    from gotranx import _verif

    return _verif.enabled()


KIND = {"rhs": "rhs", "monitor_values": "monitor", "missing_values": "missing", "scheme": "scheme"}


def emit_event_to_traces(ev, model_id, monitor_index=None, zero_slope=None, full_order=None, assignments=None):
    """One Emit event -> list of TraceEmit records (one per function in the emitted text)."""
    gen = ev["generator"]
    backend = "c" if gen.startswith("C") else ("jax" if gen.startswith("Jax") else "python")
    fns = skeleton.functions(ev["code"], gen)
    out = []
    for name, f in fns.items():
        kind = KIND[ev["fn"]]
        sidx = ev["state_index"]
        if kind in ("rhs", "scheme"):
            n = len(sidx)
        elif kind == "monitor":
            n = len(monitor_index) if monitor_index else -1
        else:
            n = len(ev.get("requested") or {})
        stmts = f["stmts"]
        out.append({
            "id": f"{model_id}:{backend}:{name}:ru={ev['remove_unused']}",
            "model": model_id, "fn": name, "kind": kind, "backend": backend, "remove_unused": ev["remove_unused"],
            "state_index": sidx, "parameter_index": ev["parameter_index"], "missing_index": ev.get("missing_index") or {},
            "monitor_index": monitor_index or {}, "requested": ev.get("requested") or {},
            "derivs": {f"d{s}_dt": s for s in sidx},
            "formals": f["args"], "needs_alloc": backend == "python", "expect_n": n, "stmts": stmts,
            # C07 (rule scheme-choice): which states the caller asked to treat with Rush-Larsen
            "check_choice": kind == "scheme" and "rush_larsen" in str(ev.get("scheme")) and zero_slope is not None,
            "all_stiff": "generalized" in str(ev.get("scheme")),
            "stiff": list((ev.get("kwargs") or {}).get("stiff_states") or []),
            "zero_slope": sorted(zero_slope or []),
            "delta": (repr(abs(float(ev["kwargs"]["delta"]))) if "delta" in (ev.get("kwargs") or {}) else ""),
            "lin": {f"d{s}_dt": f"d{s}_dt_linearized" for s in sidx},
            "full_order": list(full_order or []),
            # every assignment name of the model (from the loaded model, not from the hooks): what is a model name
            # and what a helper local of the generated code
            "assignments": sorted(assignments if assignments is not None else (ev.get("assignments") or [])),
        })
    return out


def validate_emit_traces(traces, workers=16, timeout=900):
    """Returns (TLCResult, verdicts) where verdicts[i] = list of {line, rule} for traces[i]."""
    if not traces:
        return None, []
    fd, path = tempfile.mkstemp(prefix="emit-", suffix=".ndjson", dir=tlc.scratch_root())
    with os.fdopen(fd, "w") as f:
        for t in traces:
            f.write(json.dumps(t) + "\n")
    cfg = tlc.make_cfg(invariants=["Report"])
    res = tlc.run_tlc("TraceEmit", cfg, workers=workers, timeout=timeout, env={"TRACE_FILE": path}, heap="12g",
                      stack="512m", constants_for_summary={"traces": len(traces)})
    os.unlink(path)
    # verdicts[i] = the rule failures of trace i; a function the skeleton cannot account for is uninterpretable:
    # nothing is claimed about it (reported in res.uninterpretable), notes are counted per rule
    verdicts = [None] * len(traces)
    res.uninterpretable, res.note_counts = [], {}
    for r in res.records:
        i = r["tid"] - 1
        if r["interpretable"]:
            verdicts[i] = r["fails"]
        else:
            verdicts[i] = []
            res.uninterpretable.append({"trace": traces[i]["id"], "why": r["why"], "unjudged_failures": len(r["fails"])})
        for n in r["notes"]:
            res.note_counts[n["rule"]] = res.note_counts.get(n["rule"], 0) + 1
    res.records = []
    return res, verdicts


def sort_groups(events, model_id):
    """Group SortAdd/SortOrder events into sort traces; identical groups are kept once."""
    groups, cur, seen = [], [], set()
    for ev in events:
        if ev["ev"] == "SortAdd":
            cur.append({"name": ev["name"], "iter": ev["iter"]})
        elif ev["ev"] == "SortOrder":
            key = json.dumps([cur, ev["order"], ev["assignments_only"]])
            if key not in seen and cur:   # an order without recorded adds (sorter replaced) says nothing here
                seen.add(key)
                groups.append({"id": f"{model_id}:sort{len(groups)}", "model": model_id, "adds": cur,
                               "order": ev["order"], "assignments_only": ev["assignments_only"]})
            cur = []
    return groups


def validate_sort_traces(groups, workers=16, timeout=900):
    if not groups:
        return None, []
    fd, path = tempfile.mkstemp(prefix="sort-", suffix=".ndjson", dir=tlc.scratch_root())
    with os.fdopen(fd, "w") as f:
        for t in groups:
            f.write(json.dumps(t) + "\n")
    cfg = tlc.make_cfg(invariants=["Report"])
    res = tlc.run_tlc("TraceSort", cfg, workers=workers, timeout=timeout, env={"TRACE_FILE": path}, heap="12g",
                      stack="1g", constants_for_summary={"traces": len(groups)})
    os.unlink(path)
    verdicts = [None] * len(groups)
    for r in res.records:
        verdicts[r["tid"] - 1] = r["fails"]
    res.records = []
    return res, verdicts


def monitor_index_of(codegen) -> dict:
    ns = {}
    exec(codegen.monitor_index(), ns)
    return dict(ns["monitor"])


def record_model(text: str, model_id: str, backends=("python", "jax", "c"), schemes=("explicit_euler", "generalized_rush_larsen", "hybrid_rush_larsen"),
                 remove_unused=(False, True), stiff=None, missing_values=None):
    """Generate every function of every backend under the hooks.  Returns (emit traces, sort events, decide events)."""
    from . import gx
    from gotranx.codegen.python import PythonCodeGenerator, Format as PF
    from gotranx.codegen.jax import JaxCodeGenerator
    from gotranx.codegen.c import CCodeGenerator, Format as CF
    from gotranx.schemes import get_scheme

    ode = gx.load(text, name=model_id)
    traces, sorts, decides = [], [], []
    # states whose rate expression does not mention the state itself (through the text, not through sympy)
    zero_slope = [d.state.name for d in ode.state_derivatives if d.state.name not in d.value.dependencies]
    assignments = [a.name for a in ode.intermediates] + [d.name for d in ode.state_derivatives]
    for backend in backends:
        for ru in remove_unused:
            if backend == "c":
                cg = CCodeGenerator(ode, format=CF.none, remove_unused=ru)
            elif backend == "jax":
                cg = JaxCodeGenerator(ode, format=PF.none, remove_unused=ru)
            else:
                cg = PythonCodeGenerator(ode, format=PF.none, remove_unused=ru)
            mon = monitor_index_of(cg) if backend != "c" else None
            calls = []   # (fn, emitted text, fields): the same executions seen through the public API
            with Recorder() as rec:
                calls.append(("rhs", cg.rhs(), {}))
                calls.append(("monitor_values", cg.monitor_values(), {}))
                if missing_values:
                    calls.append(("missing_values", cg.missing_values(missing_values), {"requested": dict(missing_values)}))
                # (with removal the schemes are asked for in the opposite order: the order must not matter)
                for sc in (tuple(reversed(schemes)) if ru else schemes):
                    kw = {}
                    if "rush_larsen" in sc:
                        # the delta passed varies with model, scheme and option so that "honoured" is observable
                        kw["delta"] = DELTAS[(zlib.crc32(model_id.encode()) + sc.startswith("hybrid") + bool(ru)) % len(DELTAS)]
                    if sc == "hybrid_rush_larsen":
                        kw["stiff_states"] = stiff if stiff is not None else [s.name for s in ode.states[::2]]
                    calls.append(("scheme", cg.scheme(get_scheme(sc), **kw), {"scheme": sc, "kwargs": dict(kw)}))
            if not any(e["ev"] == "Emit" for e in rec.events):
                # the Emit hook did not fire (generator restructured): the emitted text and the index functions of
                # the public API carry the same information
                rec.events.extend(_events_from_text(cg, calls, ru))
            # the sort of the complete graph recorded in this process: the longest assignments-only order
            orders = [e["order"] for e in rec.events if e["ev"] == "SortOrder" and e.get("assignments_only")]
            full_order = max(orders, key=len) if orders else []
            for ev in rec.events:
                if ev["ev"] == "Emit":
                    traces.extend(emit_event_to_traces(ev, model_id, mon, zero_slope, full_order, assignments))
                elif ev["ev"] in ("SortAdd", "SortOrder"):
                    sorts.append(ev)
                elif ev["ev"] == "SchemeDecide":
                    decides.append(ev)
    return traces, sorts, decides, ode


def _index_of(code: str, fn: str, names) -> dict:
    ns = {}
    exec(code, ns)
    return {n: int(ns[fn](n)) for n in names}


def _events_from_text(cg, calls, ru):
    ode = cg.ode
    gen = type(cg).__name__
    if gen.startswith("C"):
        sidx = {s.name: i for i, s in enumerate(ode.sorted_states())}
        pidx = {p.name: i for i, p in enumerate(ode.parameters)}
    else:
        sidx = _index_of(cg.state_index(), "state_index", [s.name for s in ode.states])
        pidx = _index_of(cg.parameter_index(), "parameter_index", [p.name for p in ode.parameters])
    out = []
    for fn, code, fields in calls:
        out.append({"ev": "Emit", "fn": fn, "generator": gen, "remove_unused": ru, "state_index": sidx, "parameter_index": pidx,
                    "missing_index": dict(getattr(ode, "missing_variables", {}) or {}), "code": code, "source": "text",
                    "assignments": sorted(a.name for a in ode.intermediates) + sorted(d.name for d in ode.state_derivatives),
                    **fields})
    return out


def repo_models(tier: str):
    files = sorted((REPO / "tests" / "odefiles").glob("*.ode"))
    extra = sorted((REPO / "examples").glob("*/*.ode"))
    small = [f for f in files if f.stat().st_size < 12000]
    big = [f for f in files if f.stat().st_size >= 12000]
    if tier == "quick":
        return small + big[:1]
    return files + extra[:1]
