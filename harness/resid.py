"""Numerical value of a specification value (rational / truth value / residual term).

The specification decides structure, branch selection and every rational value itself; what is
delegated here is only the numerical value of an elementary function at a rational point and the
arithmetic composed from such values (50 digits, mpmath).  `value(v)` returns (float-able mpf,
magnitude) where magnitude is the largest absolute intermediate value (a forward bound that makes
cancellation harmless in the tolerance), or raises Undefined.
"""
from __future__ import annotations

import mpmath as mp

mp.mp.dps = 50


class Undefined(Exception):
    pass


_F1 = {
    "exp": mp.exp, "log": mp.log, "sqrt": mp.sqrt, "sin": mp.sin, "cos": mp.cos, "tan": mp.tan,
    "asin": mp.asin, "acos": mp.acos, "atan": mp.atan,
}


def _real(x):
    if isinstance(x, mp.mpc):
        if x.imag != 0:
            raise Undefined("complex")
        x = x.real
    if not mp.isfinite(x):
        raise Undefined("non-finite")
    return x


def value(v):
    """Value at 50 digits; a residual whose value is not reproduced at float64 precision
    (an ill-conditioned composition such as tan(asin(1))) is Undefined: never compared."""
    x, m = _value(v)
    if v["k"] == "r":
        with mp.workprec(53):
            try:
                y, _ = _value(v)
            except Undefined:
                raise Undefined("ill-conditioned")
        if abs(x - y) > mp.mpf(10) ** -11 * max(1, abs(x)) + mp.mpf(10) ** -13 * m:
            raise Undefined("ill-conditioned")
        if m > mp.mpf(10) ** 9 * max(1, abs(x)):
            # an intermediate value many orders of magnitude above the result (tan near its pole, ...): the
            # float evaluation of the implementation cannot be expected to agree
            raise Undefined("ill-conditioned")
    return x, m


def _value(v):
    k = v["k"]
    if k == "q":
        x = mp.mpf(v["n"]) / mp.mpf(v["d"])
        return x, abs(x)
    if k == "b":
        return (mp.mpf(1) if v["v"] else mp.mpf(0)), mp.mpf(1)
    if k == "r":
        return _term(v["t"])
    raise Undefined(v.get("why", "undefined"))


def _term(t):
    f = t["f"]
    try:
        if f == "lit":
            x = mp.mpf(t["tok"])
            return x, abs(x)
        if f == "pi":
            return mp.pi + 0, mp.pi + 0
        a, ma = _value(t["a"])
        if f in _F1:
            if f == "exp" and a > 700:
                raise Undefined("overflow")
            x = _real(_F1[f](a))
            return x, max(ma, abs(x))
        if f == "neg":
            return -a, ma
        if f == "abs":
            return abs(a), ma
        if f == "floor":
            if abs(a - mp.nint(a)) < mp.mpf(10) ** -9 * max(1, abs(a)):
                raise Undefined("fragile-floor")
            return mp.floor(a), ma
        if f == "sign":
            if abs(a) < mp.mpf(10) ** -12:
                raise Undefined("fragile-sign")
            return mp.sign(a), ma
        b, mb = _value(t["b"])
        m = max(ma, mb)
        if f == "add":
            x = a + b
        elif f == "sub":
            x = a - b
        elif f == "mul":
            x = a * b
        elif f == "div":
            if b == 0:
                raise Undefined("div0")
            x = a / b
        elif f == "pow":
            if a == 0 and b <= 0:
                raise Undefined("div0")
            if a < 0 and b != mp.nint(b):
                raise Undefined("complex")
            x = _real(mp.power(a, b))
        elif f == "mod":
            if b == 0:
                raise Undefined("div0")
            q = a / b
            if abs(q - mp.nint(q)) < mp.mpf(10) ** -9 * max(1, abs(q)):
                raise Undefined("fragile-mod")
            x = a - b * mp.floor(q)
        else:
            raise Undefined("unknown term " + f)
        x = _real(x)
        return x, max(m, abs(x))
    except (ZeroDivisionError, ValueError, OverflowError, mp.libmp.NoConvergence) as ex:
        raise Undefined(type(ex).__name__)


def close(got: float, want, mag, rtol: float = 1e-9) -> bool:
    """got is a float from the implementation; want/mag come from value()."""
    import math

    w = float(want)
    if math.isnan(got) or math.isinf(got):
        return False
    tol = rtol * max(1.0, abs(w)) + 1e-11 * float(mag)
    return abs(got - w) <= tol


def fmt(v) -> str:
    k = v.get("k")
    if k == "q":
        return f"{v['n']}/{v['d']}" if v["d"] != 1 else str(v["n"])
    if k == "b":
        return str(v["v"])
    if k == "u":
        return f"undefined({v.get('why')})"
    try:
        return f"{float(value(v)[0])!r} (residual)"
    except Undefined as ex:
        return f"undefined({ex})"
