"""Subprocess worker for C09: run under one PYTHONHASHSEED, print digests of everything generated.

usage: python -m harness.detrun <models.json>   (list of {"id", "text", "heavy": bool}; handled in an order derived from the seed)
prints one JSON object: {id: {"numpy": sha, "numpy_ru": sha, "c": sha, "jax": sha, "state_index": {...}, ... , "iters": [...]}}
"""
from __future__ import annotations

import hashlib
import json
import os
import sys

os.environ.setdefault("GOTRANX_VERIF", "1")


def sha(s: str) -> str:
    return hashlib.sha1(s.encode()).hexdigest()[:16]


def main():
    from . import gx, traces
    models = json.load(open(sys.argv[1]))
    # every process handles the models in its own order (seed 0: as listed): what is generated for a text must not
    # depend on what the process handled before either
    order = int(os.environ.get("PYTHONHASHSEED", "0") or 0)
    if order:
        import random
        random.Random(order).shuffle(models)
    out = {}
    for m in models:
        rec = {}
        try:
            with traces.Recorder() as r:
                ode = gx.load(m["text"], name=m["id"])
                schemes = [] if m.get("heavy") else ["explicit_euler", "generalized_rush_larsen", "hybrid_rush_larsen"]
                code = gx.numpy_code(ode, schemes, stiff_states=[s.name for s in ode.states[:1]])
                rec["numpy"] = sha(code)
                rec["numpy_ru"] = sha(gx.numpy_code(ode, schemes[:1], remove_unused=True))
                rec["c"] = sha(gx.c_code(ode, schemes[:1]))
                if not m.get("heavy"):
                    rec["jax"] = sha(gx.jax_code(ode, schemes[:1]))
                ns = gx.exec_module(code)
                rec["state_index"] = ns["state"]
                rec["parameter_index"] = ns["parameter"]
                rec["monitor_index"] = ns["monitor"]
                rec["components"] = [c.name for c in ode.components]
                # sub-models and what they export: missing_values asked for EVERY quantity of the exporting side
                # (several states and parameters among them), in a fixed slot assignment
                if len(ode.components) > 1 and not m.get("heavy"):
                    parts = []
                    for comp in sorted(ode.components, key=lambda c: c.name):
                        for label, half in (("to_ode", comp.to_ode()), ("minus", ode - comp)):
                            names = sorted([a.name for a in half.states] + [a.name for a in half.parameters]
                                           + [a.name for a in half.intermediates] + [a.name for a in half.state_derivatives])
                            req = {n: i for i, n in enumerate(reversed(names))}
                            parts.append(label + comp.name + gx.numpy_code(half, ["explicit_euler"], missing_values=req)
                                         + gx.c_code(half, [], missing_values=dict(req)))
                            parts.append(json.dumps(dict(half.missing_variables), sort_keys=False))
                    rec["split"] = sha("\n".join(parts))
                # the model compares equal to itself loaded again
                rec["self_equal"] = bool(gx.load(m["text"], name=m["id"]) == ode)
            first = {}
            for ev in r.events:
                if ev["ev"] == "SortAdd" and ev["name"] not in first:
                    first[ev["name"]] = ev["iter"]
            rec["iters"] = first
        except Exception as ex:  # noqa: BLE001
            rec["error"] = f"{type(ex).__name__}: {str(ex)[:200]}"
        out[m["id"]] = rec
    print("DETRUN " + json.dumps(out))


if __name__ == "__main__":
    main()
