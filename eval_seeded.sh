#!/bin/sh
# eval_seeded.sh <name> <patch> <demo.py> <Cnn> [<Cnn> ...]
# Applies a seeded change to a scratch worktree of /repo (never to /repo itself), confirms that
#  (1) the demonstration fails with the change and passes without it,
#  (2) the repository's suite still passes its 263 baseline tests with the change,
# then runs the named checks (quick tier) against the changed tree and reports their exit codes.
HERE="$(cd "$(dirname "$0")" && pwd)"
name="$1"; patch="$2"; demo="$3"; shift 3
WT=/tmp/seed/eval_$name
OUT=/tmp/seed/out_$name
rm -rf "$OUT"; mkdir -p "$OUT"
git -C /repo worktree remove --force "$WT" 2>/dev/null
git -C /repo worktree add -q --detach "$WT" HEAD || exit 2
if ! git -C "$WT" apply "$patch"; then echo "PATCH DOES NOT APPLY"; git -C /repo worktree remove --force "$WT"; exit 2; fi
PYTHONPATH=/repo/src /venv/bin/python "$demo" > "$OUT/demo_clean.log" 2>&1; d0=$?
PYTHONPATH="$WT/src" /venv/bin/python "$demo" > "$OUT/demo_changed.log" 2>&1; d1=$?
echo "demo: unchanged tree exit=$d0, changed tree exit=$d1"
"$HERE/baseline_check.sh" "$WT" > "$OUT/baseline.log" 2>&1; b=$?
echo "baseline suite with the change: $(head -1 $OUT/baseline.log) (rc=$b)"
for p in "$@"; do
  s=$(date +%s)
  (cd "$HERE" && VERIF_REPO="$WT" VERIF_OUT="$OUT" timeout 3000 ./check "$p" quick > "$OUT/check_$p.log" 2>&1); rc=$?
  e=$(date +%s)
  echo "check $p: exit=$rc ($((e-s))s) $(grep -c '^VIOLATION' $OUT/check_$p.log) violation signature(s)"
  grep -A1 '^VIOLATION' "$OUT/check_$p.log" | grep signature | head -3 | cut -c1-260
done
git -C /repo worktree remove --force "$WT"
