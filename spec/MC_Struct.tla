----------------------------- MODULE MC_Struct -----------------------------
(***************************************************************************)
(* Structural models: dependency DAG shapes x component layouts x unused   *)
(* definitions, built constructively (one Choose step per assignment),     *)
(* pushed through the pipeline of Pipeline.tla.  At every completed model  *)
(* TLC checks that the operational pipeline (sort, layout, emit, execute   *)
(* in a flat namespace) refines the meaning of the text (Den), for rhs,    *)
(* monitor_values, the three schemes, with and without removal of unused   *)
(* variables - and emits the model with its expected observations so that  *)
(* the harness can replay it in the real library.                          *)
(***************************************************************************)
EXTENDS Pipeline, Json

CONSTANTS NInter,        \* number of intermediates (2 quick, 3 thorough)
          FreeSchedule,  \* TRUE: the iteration order of every dependency set is free (the design before the C09 repair)
          ExtraLayouts,  \* component layouts beyond the four standard ones ({} or {"headed"})
          EmitMod        \* emit one case out of EmitMod (structural hash); 0 = emit none

NumLexDef == [t \in {"0","1","2","3","4","5","6","7","8","0.5","0.25"} |->
                CASE t = "0.5" -> <<1,2>> [] t = "0.25" -> <<1,4>>
                  [] t = "0" -> <<0,1>> [] t = "1" -> <<1,1>> [] t = "2" -> <<2,1>> [] t = "3" -> <<3,1>> [] t = "4" -> <<4,1>>
                  [] t = "5" -> <<5,1>> [] t = "6" -> <<6,1>> [] t = "7" -> <<7,1>> [] t = "8" -> <<8,1>>]
\* "U" and "u" differ only in case: a case-insensitive ordering would leave their relative order to the hash seed
NameOrderDef == <<"U", "c", "dx_dt", "dy_dt", "k", "p", "q", "t", "u", "x", "y">>
N(tok) == NumOf(tok)

States == <<"x", "y">>
Params == <<"p", "q", "U">>
AllInters == <<"u", "k", "c">>                 \* build order; alphabetical order is c < k < u (adversarial)
Inters == SubSeq(AllInters, 1, NInter)
DerivsB == <<"dx_dt", "dy_dt">>
Build == Inters \o DerivsB
Leaves == {"x", "y", "p", "q", "t", "U"}
\* the rate built last (dy_dt) may also read the other rate, dx_dt, as a value (I_cap = Cm*dV_dt; the Myokit importer
\* writes dot(V) this way): in the split layout that is a state derivative read across the component boundary
Allowed(i, lo) == (IF lo = "noparams" THEN Leaves \ {"p", "q", "U"} ELSE Leaves)
                  \cup ({Build[j] : j \in 1..(i - 1)} \ (IF i = Len(Build) THEN {"dy_dt"} ELSE {"dx_dt", "dy_dt"}))
DepChoices(i, lo) == {S \in SUBSET Allowed(i, lo) : Cardinality(S) <= 2}
LitTok(i) == CASE i = 1 -> "3" [] i = 2 -> "5" [] i = 3 -> "7" [] i = 4 -> "2" [] i = 5 -> "4" [] OTHER -> "6"

\* expression of assignment number i over its (name-sorted) dependency sequence ds
Tpl(i, ds) ==
  LET c == N(LitTok(i)) IN
  IF Len(ds) = 0 THEN c
  ELSE IF Len(ds) = 1 THEN
       LET d == Var(ds[1]) IN
       CASE i % 3 = 0 -> Bn("add", Bn("mul", d, N("2")), c)
         [] i % 3 = 1 -> Bn("sub", c, d)
         [] OTHER     -> Bn("div", d, N("2"))
  ELSE LET d1 == Var(ds[1]) d2 == Var(ds[2]) IN
       CASE i % 4 = 0 -> Bn("add", d1, Bn("mul", N("2"), d2))
         [] i % 4 = 1 -> Bn("sub", Bn("mul", d1, d2), c)
         [] i % 4 = 2 -> Cond(Rel("Gt", d1, d2), Bn("sub", d1, N("1")), Bn("mul", d2, N("2")))
         [] OTHER     -> Bn("sub", d1, Bn("div", d2, N("2")))

\* "noparams": one component, no parameters block at all (degenerate shape the templates must survive)
\* "annotated": one component, with unit / description annotations on declarations and unit comments on
\*              assignment lines (inert for every numerical observation: C17; preserved by save/load: C11)
\* "headed": one named component holding everything (every assignment below one expressions("M") header);
\* only the runs that name it in ExtraLayouts build it
CompLayouts == {"single", "split", "noparams", "annotated"} \cup ExtraLayouts
\* "mixed": the first component under a header, the second one WITHOUT a header - its declarations and then its
\* assignments, written after the headed block (the declaration block ends the header's scope); a writer that puts
\* the header-less assignments back below the header changes their component
CompOf(layout, n) == IF layout \in {"single", "noparams", "annotated"} THEN ""
                     ELSE IF layout = "headed" THEN "M"
                     ELSE IF layout = "mixed" THEN (IF n \in {"x", "p", "u", "c", "dx_dt", "U"} THEN "A" ELSE "")
                     ELSE IF n \in {"x", "p", "u", "c", "dx_dt", "U"} THEN "A" ELSE "B"

VARIABLES deps, sched, i, layout, pc,
          mi, lay          \* model info and layout: computed once when the model is complete
vars == <<deps, sched, i, layout, pc, mi, lay>>

Perms(S) == {p \in [1..Cardinality(S) -> S] : \A a, b \in 1..Cardinality(S) : a # b => p[a] # p[b]}

\* the model text
Entry(n, e) == [name |-> n, e |-> e]
UnitOf(n) == CASE n = "x" -> "mV" [] n = "U" -> "mM" [] n = "y" -> "" [] n = "p" -> "ms**-1" [] n = "q" -> "" [] n = "u" -> "pA*pF**-1"
               [] n = "dx_dt" -> "mV*ms**-1" [] OTHER -> ""
DescOf(n) == CASE n = "x" -> "membrane potential" [] n = "q" -> "a rate" [] OTHER -> ""
Annot(bs) == [b \in 1..Len(bs) |-> [bs[b] EXCEPT !.entries =
                 [j \in 1..Len(@) |-> [name |-> @[j].name, e |-> @[j].e, unit |-> UnitOf(@[j].name), desc |-> DescOf(@[j].name)]]]]
BlocksFor(d, c, names) ==
  LET sts == SelectSeq(States, LAMBDA n : n \in names)
      prs == SelectSeq(Params, LAMBDA n : n \in names)
      idx == SelectSeq([j \in 1..Len(Build) |-> j], LAMBDA j : Build[j] \in names)
  IN (IF sts = <<>> THEN <<>> ELSE
        <<[k |-> "states", comp |-> c, entries |-> [j \in 1..Len(sts) |-> Entry(sts[j], IF sts[j] = "x" THEN N("1") ELSE Bn("sub", N("1"), N("0.5")))]]>>)
  \o (IF prs = <<>> THEN <<>> ELSE
        <<[k |-> "parameters", comp |-> c, entries |-> [j \in 1..Len(prs) |-> Entry(prs[j], IF prs[j] = "p" THEN N("2") ELSE IF prs[j] = "U" THEN Bn("mul", N("2"), N("2")) ELSE Bn("div", N("0.5"), N("2")))]]>>)
  \o (IF idx = <<>> THEN <<>> ELSE
        <<[k |-> "expressions", comp |-> c, entries |-> [j \in 1..Len(idx) |-> Entry(Build[idx[j]], Tpl(idx[j], SortByName(d[Build[idx[j]]])))]]>>)
AllN == SeqSet(States) \cup SeqSet(Params) \cup SeqSet(Build)
ModelOf(d, lo) ==
  IF lo = "single" THEN [blocks |-> BlocksFor(d, "", AllN)]
  ELSE IF lo = "noparams" THEN [blocks |-> BlocksFor(d, "", AllN \ SeqSet(Params))]
  ELSE IF lo = "annotated" THEN [blocks |-> Annot(BlocksFor(d, "", AllN))]
  ELSE IF lo = "headed" THEN [blocks |-> BlocksFor(d, "M", AllN)]
  ELSE IF lo = "mixed" THEN [blocks |-> BlocksFor(d, "A", {n \in AllN : CompOf(lo, n) = "A"})
                                        \o BlocksFor(d, "", {n \in AllN : CompOf(lo, n) = ""})]
  ELSE [blocks |-> BlocksFor(d, "A", {n \in AllN : CompOf(lo, n) = "A"})
                   \o BlocksFor(d, "B", {n \in AllN : CompOf(lo, n) = "B"})]

None == [none |-> TRUE]
Init == deps = <<>> /\ sched = <<>> /\ i = 1 /\ layout \in CompLayouts /\ pc = "build" /\ mi = None /\ lay = None
Choose == /\ pc = "build" /\ i <= Len(Build)
          /\ \E S \in DepChoices(i, layout) :
               /\ deps' = deps @@ (Build[i] :> S)
               /\ IF FreeSchedule THEN \E pm \in Perms(S) : sched' = sched @@ (Build[i] :> pm)
                  ELSE sched' = sched @@ (Build[i] :> SortByName(S))
          /\ i' = i + 1 /\ UNCHANGED layout
          /\ IF i = Len(Build)
             THEN /\ pc' = "done" /\ mi' = Info(ModelOf(deps', layout)) /\ lay' = Layout(mi', sched')
             ELSE /\ pc' = "build" /\ UNCHANGED <<mi, lay>>
Next == Choose
Spec == Init /\ [][Next]_vars
Done == pc = "done"

\* inputs (distinct dyadic values so that a slot mix-up changes the numbers)
Inputs == << [t |-> Q(1,2), dt |-> Q(1,8), states |-> [x |-> Q(3,2), y |-> Q(-1,4)], params |-> [p |-> Q(3,1), q |-> Q(1,4), U |-> Q(-3,2)], missing |-> <<>>],
             [t |-> Q(2,1), dt |-> Q(-1,4), states |-> [x |-> Q(-1,2), y |-> Q(2,1)], params |-> [p |-> Q(-1,1), q |-> Q(5,2), U |-> Q(7,4)], missing |-> <<>>] >>
DeltaAst == N("0.25")
DeltaV == Q(1,4)
Schemes == {"explicit_euler", "generalized_rush_larsen", "hybrid_rush_larsen"}

StatesByName(fn, inp) == ByNames(lay.state, Exec(fn, lay, inp))
MonByName(fn, inp) == ByNames(lay.monitor, Exec(fn, lay, inp))
DerivsByState(den) == [s \in mi.sN |-> den[DName(s)]]

\* ---- properties on the specification (L1) ----
C08_GeneratedAreWellFormed == Done => (WellFormed(mi) /\ LoadOutcome(mi) = "ok" /\ SortOutcome(mi, sched) = "ok")
IsPermOf(s, S) == Len(s) = Cardinality(S) /\ SeqSet(s) = S
C04_IndexBijective == Done => /\ IsPermOf(lay.state, mi.sN) /\ IsPermOf(lay.param, mi.pN) /\ IsPermOf(lay.monitor, mi.aN)
C03_OutputLengths == Done => \A ru \in BOOLEAN :
     /\ LengthsOk(EmitRhs(mi, lay, ru)) /\ LengthsOk(EmitMonitor(mi, lay, ru))
     /\ \A sc \in Schemes : LengthsOk(EmitScheme(mi, lay, ru, sc, {"x"}, DeltaAst))
C01_RhsRefinesDen == Done => \A ii \in 1..Len(Inputs) :
     SameVals(StatesByName(EmitRhs(mi, lay, FALSE), Inputs[ii]), DerivsByState(DenAll(mi, Inputs[ii])))
C04_MonitorRefinesDen == Done => \A ii \in 1..Len(Inputs) :
     LET den == DenAll(mi, Inputs[ii]) IN SameVals(MonByName(EmitMonitor(mi, lay, FALSE), Inputs[ii]), [n \in mi.aN |-> den[n]])
C05_Euler == Done => \A ii \in 1..Len(Inputs) : \A ru \in BOOLEAN :
     SameVals(StatesByName(EmitScheme(mi, lay, ru, "explicit_euler", {}, DeltaAst), Inputs[ii]), DenEuler(mi, Inputs[ii]))
C06_GRL == Done => \A ii \in 1..Len(Inputs) : \A ru \in BOOLEAN :
     SameVals(StatesByName(EmitScheme(mi, lay, ru, "generalized_rush_larsen", {}, DeltaAst), Inputs[ii]),
       DenGRL(mi, Inputs[ii], DeltaV, mi.sN))
C07_Hybrid == Done => \A ii \in 1..Len(Inputs) : \A stiff \in SUBSET {"x", "y", "foreign"} :
     SameVals(StatesByName(EmitScheme(mi, lay, FALSE, "hybrid_rush_larsen", stiff, DeltaAst), Inputs[ii]),
       DenGRL(mi, Inputs[ii], DeltaV, stiff))
C12_SameResults == Done => \A ii \in 1..Len(Inputs) :
     SameVals(StatesByName(EmitRhs(mi, lay, TRUE), Inputs[ii]), StatesByName(EmitRhs(mi, lay, FALSE), Inputs[ii]))
C12_NoUseBeforeDef == Done => \A ru \in BOOLEAN :
     /\ NoUseBeforeDef(EmitRhs(mi, lay, ru)) /\ NoUseBeforeDef(EmitMonitor(mi, lay, ru))
     /\ \A sc \in Schemes : NoUseBeforeDef(EmitScheme(mi, lay, ru, sc, {"x"}, DeltaAst))
\* the layout is a function of the text: it does not depend on the iteration schedule
C09_LayoutDeterministic == Done => lay = Layout(mi, CanonSched(mi))
Topological == Done => \A a, b \in 1..Len(lay.order) : lay.order[a] \in Deps(mi, lay.order[b]) => a < b

\* ---- emission of cases for the replay (L2) ----
Toks(e) == Render(e, "min")
RECURSIVE BlocksJson(_)
BlocksJson(bs) == IF bs = <<>> THEN <<>> ELSE
   <<[k |-> Head(bs).k, comp |-> Head(bs).comp,
      entries |-> [j \in 1..Len(Head(bs).entries) |->
                     IF "unit" \in DOMAIN Head(bs).entries[j]
                     THEN [name |-> Head(bs).entries[j].name, toks |-> Toks(Head(bs).entries[j].e),
                           unit |-> Head(bs).entries[j].unit, desc |-> Head(bs).entries[j].desc]
                     ELSE [name |-> Head(bs).entries[j].name, toks |-> Toks(Head(bs).entries[j].e)]]]>>
   \o BlocksJson(Tail(bs))
DepCount == Cardinality(UNION {deps[n] : n \in DOMAIN deps})
Hash == LET RECURSIVE H(_)
            H(j) == IF j > Len(Build) THEN 0 ELSE (j * 7 + 3) * (1 + Cardinality(deps[Build[j]]) + 2 * Cardinality(deps[Build[j]] \cap {"x", "q", "u"})) + H(j + 1)
        IN H(1) + (IF layout = "single" THEN 0 ELSE IF layout = "split" THEN 5 ELSE IF layout = "noparams" THEN 11 ELSE IF layout = "headed" THEN 23 ELSE IF layout = "mixed" THEN 29 ELSE 17)
LayoutOffset == IF layout = "single" THEN 0 ELSE IF layout = "split" THEN 5 ELSE IF layout = "noparams" THEN 11 ELSE IF layout = "headed" THEN 23 ELSE IF layout = "mixed" THEN 29 ELSE 17
\* the structural part alone: selecting base models on it takes every layout of a selected structure
HashS == Hash - LayoutOffset
\* a polynomial hash of the dependency sets themselves (Hash, sums of cardinalities, is too regular to sample with)
RECURSIVE Pow2(_)
Pow2(k) == IF k = 0 THEN 1 ELSE 2 * Pow2(k - 1)
SetCode(S) == LET RECURSIVE C(_)
                  C(T) == IF T = {} THEN 0 ELSE LET v == CHOOSE v \in T : TRUE IN Pow2(PosN(v)) + C(T \ {v})
              IN C(S)
Hash2 == LET RECURSIVE H(_)
             H(j) == IF j > Len(Build) THEN 7 ELSE (H(j + 1) * 131 + SetCode(deps[Build[j]])) % 1000003
         IN H(1)
Expect(inp) ==
  LET den == DenAll(mi, inp) IN
  [rhs |-> DerivsByState(den), monitor |-> [n \in mi.aN |-> den[n]],
   explicit_euler |-> DenEuler(mi, inp),
   generalized_rush_larsen |-> DenGRL(mi, inp, DeltaV, mi.sN),
   hybrid_x |-> DenGRL(mi, inp, DeltaV, {"x"})]
InputJson(inp) == [t |-> inp.t, dt |-> inp.dt, states |-> inp.states, params |-> inp.params]
Emit == (Done /\ EmitMod > 0 /\ (Hash2 + LayoutOffset) % EmitMod = 0) =>
   PrintT(ToJson([blocks |-> BlocksJson(ModelOf(deps, layout).blocks),
                  delta |-> "0.25", names |-> NameOrder,
                  defaults |-> [n \in mi.sN \cup mi.pN |-> Eval(mi.ex[n], <<>>, FALSE)],
                  unused |-> {n \in mi.iN : ~HasDependents(mi, n)},
                  cases |-> [ii \in 1..Len(Inputs) |-> [input |-> InputJson(Inputs[ii]), expect |-> Expect(Inputs[ii])]]]))
\* ---- C13: component split ----
\* C.to_ode() keeps the blocks of component C, model - C the others
SubBlocks(c, keep) == SelectSeq(ModelOf(deps, layout).blocks, LAMBDA b : (b.comp = c) = keep)
SubInfo(c, keep) == Info([blocks |-> SubBlocks(c, keep)])
\* values of the full model, by name, used to feed a half its missing variables
FullDen(inp) == DenAll(mi, inp)
SubInput(smi, inp) == LET den == FullDen(inp) IN
   [t |-> inp.t, dt |-> inp.dt, states |-> [s \in smi.sN |-> inp.states[s]], params |-> [p \in smi.pN |-> inp.params[p]],
    missing |-> [n \in smi.missing |-> den[n]]]
HalfOk(smi, inp) ==
   LET sl == Layout(smi, CanonSched(smi))
       sinp == SubInput(smi, inp)
       den == FullDen(inp)
   IN /\ SameVals(ByNames(sl.state, Exec(EmitRhs(smi, sl, FALSE), sl, sinp)), [s \in smi.sN |-> den[DName(s)]])
      /\ SameVals(ByNames(sl.monitor, Exec(EmitMonitor(smi, sl, FALSE), sl, sinp)), [n \in smi.aN |-> den[n]])
      /\ SameVals(ByNames(sl.state, Exec(EmitScheme(smi, sl, FALSE, "explicit_euler", {}, DeltaAst), sl, sinp)),
                  [s \in smi.sN |-> DenEulerV(inp.states[s], inp.dt, den[DName(s)])])
      /\ NoUseBeforeDef(EmitRhs(smi, sl, TRUE)) /\ NoUseBeforeDef(EmitMonitor(smi, sl, TRUE))
IsSplit == Done /\ layout = "split"
C13_MissingExact == IsSplit => \A c \in {"A", "B"} : \A keep \in BOOLEAN :
   LET smi == SubInfo(c, keep) IN smi.missing = UsedAll(smi) \ (smi.def \cup TimeNames)
C13_StatesPartition == IsSplit => \A c \in {"A", "B"} :
   LET a == SubInfo(c, TRUE) b == SubInfo(c, FALSE) IN a.sN \cup b.sN = mi.sN /\ a.sN \cap b.sN = {}
C13_Recompose == IsSplit => \A c \in {"A", "B"} : \A keep \in BOOLEAN : \A ii \in 1..Len(Inputs) :
   LET smi == SubInfo(c, keep) IN (LoadOutcome(smi) = "ok" => HalfOk(smi, Inputs[ii]))
\* the other half's requested values, computed by this half's missing_values function
C13_MissingValues == IsSplit => \A c \in {"A", "B"} : \A ii \in 1..Len(Inputs) :
   LET me == SubInfo(c, TRUE) other == SubInfo(c, FALSE)
       req0 == SortByName(other.missing \cap me.def)
       req == [n \in SeqSet(req0) |-> SlotIn(req0, n)]
       sl == Layout(me, CanonSched(me))
       den == FullDen(Inputs[ii])
   IN (req0 # <<>> /\ LoadOutcome(me) = "ok") =>
      SameVals(ByNames(req0, Exec(EmitMissingValues(me, sl, FALSE, req), sl, SubInput(me, Inputs[ii]))), [n \in SeqSet(req0) |-> den[n]])
EmitSplit == (IsSplit /\ EmitMod > 0 /\ Hash2 % EmitMod = 0) =>
   PrintT(ToJson([blocks |-> BlocksJson(ModelOf(deps, layout).blocks), split |-> TRUE,
                  halves |-> [c \in {"A", "B"} |-> [own |-> [missing |-> SubInfo(c, TRUE).missing, states |-> SubInfo(c, TRUE).sN,
                                                               assigns |-> SubInfo(c, TRUE).aN],
                                                       rest |-> [missing |-> SubInfo(c, FALSE).missing, states |-> SubInfo(c, FALSE).sN,
                                                                 assigns |-> SubInfo(c, FALSE).aN]]],
                  cases |-> [ii \in 1..Len(Inputs) |-> [input |-> InputJson(Inputs[ii]),
                                                         den |-> FullDen(Inputs[ii]),
                                                         euler |-> DenEuler(mi, Inputs[ii])]]]))

\* models on which the iteration schedule of the dependency sets changes the layout (FreeSchedule = TRUE only):
\* the witnesses of C09 that the harness replays under different hash seeds
EmitSchedSensitive == (Done /\ lay # Layout(mi, CanonSched(mi))) =>
   PrintT(ToJson([blocks |-> BlocksJson(ModelOf(deps, layout).blocks), sched |-> sched,
                  \* the dependency sets whose iteration order differs from the canonical one in this schedule
                  flipped |-> {deps[n] : n \in {m \in DOMAIN sched : sched[m] # SortByName(deps[m])}},
                  state_order |-> lay.state, canonical_state_order |-> Layout(mi, CanonSched(mi)).state]))
=============================================================================
