------------------------------ MODULE OdeExpr ------------------------------
(***************************************************************************)
(* Expressions of the gotranx model language (docs/grammar.md, ode.lark)   *)
(* as abstract syntax trees, and their DOCUMENTED MEANING:                 *)
(*   Eval   - reference evaluation over exact rationals (+ residual terms  *)
(*            for transcendental leaves)                                   *)
(*   Diff   - an independent symbolic differentiator (Rush-Larsen, Jacobi) *)
(*   Render - printing an AST as a token sequence (two parenthesisation    *)
(*            styles); the text handed to gotranx is these tokens joined   *)
(*            by blanks                                                    *)
(* AST nodes (records, field op is the tag):                               *)
(*   num(n,d,tok,ex) big(tok) var(v) pi  neg(a) pos(a)                     *)
(*   add sub mul div pow (a,b)   fn(f,a)  mod(a,b)                         *)
(*   rel(r,a,b) not(a) and(args) or(args) cond(c,a,b)                      *)
(*   ccond(r,l,rr,a,b,s)  sign(a) [only produced by Diff]                  *)
(***************************************************************************)
EXTENDS Rat

Num(n,d,tok)  == [op |-> "num", n |-> n, d |-> d, tok |-> tok, ex |-> IsPow2(d)]
Big(tok)      == [op |-> "big", tok |-> tok]
Var(v)        == [op |-> "var", v |-> v]
Pi            == [op |-> "pi"]
Neg(a)        == [op |-> "neg", a |-> a]
Pos(a)        == [op |-> "pos", a |-> a]
Bn(o, a, b)   == [op |-> o, a |-> a, b |-> b]
Fn(f, a)      == [op |-> "fn", f |-> f, a |-> a]
Mod(a, b)     == [op |-> "mod", a |-> a, b |-> b]
Rel(r, a, b)  == [op |-> "rel", r |-> r, a |-> a, b |-> b]
Not(a)        == [op |-> "not", a |-> a]
And(args)     == [op |-> "and", args |-> args]
Or(args)      == [op |-> "or", args |-> args]
Cond(c, a, b) == [op |-> "cond", c |-> c, a |-> a, b |-> b]
CCond(r, l, rr, a, b, s) == [op |-> "ccond", r |-> r, l |-> l, rr |-> rr, a |-> a, b |-> b, s |-> s]
Sign(a)       == [op |-> "sign", a |-> a]

Zero == Num(0,1,"0")
One  == Num(1,1,"1")
Two  == Num(2,1,"2")

BinOps  == {"add","sub","mul","div","pow"}
FnNames == {"exp","log","ln","sqrt","sin","cos","tan","asin","acos","atan","abs","Abs","floor"}
RelOps  == {"Lt","Gt","Le","Ge","Eq"}
TimeNames == {"t", "time"}

\* ---------------------------------------------------------------------------
\* structure
RECURSIVE Vars(_)
VarsSeq(s) == UNION {Vars(s[i]) : i \in 1..Len(s)}
Vars(e) ==
  CASE e.op \in {"num","big","pi"} -> {}
    [] e.op = "var" -> {e.v}
    [] e.op \in {"neg","pos","fn","not","sign"} -> Vars(e.a)
    [] e.op \in {"and","or"} -> VarsSeq(e.args)
    [] e.op = "cond" -> Vars(e.c) \cup Vars(e.a) \cup Vars(e.b)
    [] e.op = "ccond" -> Vars(e.l) \cup Vars(e.rr) \cup Vars(e.a) \cup Vars(e.b) \cup Vars(e.s)
    [] OTHER -> Vars(e.a) \cup Vars(e.b)

IsBoolNode(e) == e.op \in {"rel","not","and","or"}

\* ContinuousConditional as written in sympytools.ContinuousConditional
HeavisideOf(e) == Bn("div", One, Bn("add", One, Fn("exp", Bn("div", Bn("sub", e.l, e.rr), e.s))))
Desugar(e) ==
  LET H == HeavisideOf(e) IN
  IF e.r \in {"Gt","Ge"}
  THEN Bn("add", Bn("mul", e.a, Bn("sub", One, H)), Bn("mul", e.b, H))
  ELSE Bn("add", Bn("mul", e.a, H), Bn("mul", e.b, Bn("sub", One, H)))

\* ---------------------------------------------------------------------------
\* elementary functions at rational points
Res1(f, a) == R([f |-> f, a |-> a])
Fn1(f, a) ==
  CASE f \in {"abs","Abs"} -> QAbs(a)
    [] f = "floor" -> QFloor(a)
    [] f = "sign"  -> QSign(a)
    [] f = "exp"   -> IF a.n = 0 THEN QOne ELSE Res1("exp", a)
    [] f \in {"log","ln"} -> IF a.n <= 0 THEN U("log<=0") ELSE IF a.n = a.d THEN QZero ELSE Res1("log", a)
    [] f = "sqrt"  -> IF a.n < 0 THEN U("sqrt<0") ELSE IF IsSquare(a) THEN QSqrt(a) ELSE Res1("sqrt", a)
    [] f = "sin"   -> IF a.n = 0 THEN QZero ELSE Res1("sin", a)
    [] f = "cos"   -> IF a.n = 0 THEN QOne ELSE Res1("cos", a)
    [] f = "tan"   -> IF a.n = 0 THEN QZero ELSE Res1("tan", a)
    [] f = "asin"  -> IF QLt(QOne, QAbs(a)) THEN U("asin-domain") ELSE IF a.n = 0 THEN QZero ELSE Res1("asin", a)
    [] f = "acos"  -> IF QLt(QOne, QAbs(a)) THEN U("acos-domain") ELSE IF a.n = a.d THEN QZero ELSE Res1("acos", a)
    [] f = "atan"  -> IF a.n = 0 THEN QZero ELSE Res1("atan", a)
    [] OTHER       -> U("unknown-fn")
FnCanon(f) == IF f = "ln" THEN "log" ELSE IF f = "Abs" THEN "abs" ELSE f

\* binary arithmetic on values
Arith(op, a, b) ==
  IF IsU(a) THEN a ELSE IF IsU(b) THEN b
  ELSE IF IsB(a) \/ IsB(b) THEN U("type")
  ELSE IF IsR(a) \/ IsR(b) THEN
       (IF op \in {"div","mod"} /\ IsQ(b) /\ b.n = 0 THEN U("div0")
        ELSE IF op = "pow" /\ IsQ(a) /\ a.n = 0 THEN U("pow-zero-base-residual-exp")
        ELSE R([f |-> op, a |-> a, b |-> b]))
  ELSE CASE op = "add" -> QAdd(a,b) [] op = "sub" -> QSub(a,b) [] op = "mul" -> QMul(a,b)
         [] op = "div" -> QDiv(a,b) [] op = "pow" -> QPow(a,b) [] op = "mod" -> QMod(a,b)

\* comparisons: decided by the specification only; a tie between operands that a
\* float evaluation may not reproduce exactly is "fragile" (dropped, never compared)
RelV(r, a, b) ==
  IF IsU(a) THEN a ELSE IF IsU(b) THEN b
  ELSE IF ~IsQ(a) \/ ~IsQ(b) THEN U("residual-cond")
  ELSE IF QEq(a,b) /\ ~(a.ex /\ b.ex) THEN U("fragile-tie")
  ELSE CASE r = "Lt" -> B(QLt(a,b)) [] r = "Gt" -> B(QLt(b,a))
         [] r = "Le" -> B(QLe(a,b)) [] r = "Ge" -> B(QLe(b,a)) [] r = "Eq" -> B(QEq(a,b))

\* a relation used as a number is 1 / 0 (expressions.relational_to_piecewise)
ToNum(v) == IF IsB(v) THEN (IF v.v THEN QOne ELSE QZero) ELSE v

\* ---------------------------------------------------------------------------
\* Eval(e, env, lazy): env maps variable names to values; "t" and "time" both read env["t"].
\* lazy = FALSE: every sub-expression must be defined (numpy.where / JAX evaluate both branches)
\* lazy = TRUE : only the selected branch of a Conditional must be defined
RECURSIVE Eval(_,_,_)
EvalArgs(args, env, lazy) == [i \in 1..Len(args) |-> Eval(args[i], env, lazy)]
Eval(e, env, lazy) ==
  CASE e.op = "num" -> Qx(e.n, e.d, e.ex)
    [] e.op = "big" -> R([f |-> "lit", tok |-> e.tok])
    [] e.op = "pi"  -> R([f |-> "pi"])
    [] e.op = "var" -> IF e.v \in TimeNames THEN env["t"]
                       ELSE IF e.v \in DOMAIN env THEN env[e.v] ELSE U("unbound")
    [] e.op = "pos" -> ToNum(Eval(e.a, env, lazy))
    [] e.op = "neg" -> LET a == ToNum(Eval(e.a, env, lazy)) IN
                       IF IsU(a) THEN a ELSE IF IsQ(a) THEN QNeg(a) ELSE R([f |-> "neg", a |-> a])
    [] e.op \in {"fn","sign"} ->
                       LET f == IF e.op = "sign" THEN "sign" ELSE e.f
                           a == ToNum(Eval(e.a, env, lazy)) IN
                       IF IsU(a) THEN a ELSE IF IsQ(a) THEN Fn1(f, a) ELSE Res1(FnCanon(f), a)
    [] e.op \in BinOps -> Arith(e.op, ToNum(Eval(e.a, env, lazy)), ToNum(Eval(e.b, env, lazy)))
    [] e.op = "mod" -> Arith("mod", ToNum(Eval(e.a, env, lazy)), ToNum(Eval(e.b, env, lazy)))
    [] e.op = "rel" -> RelV(e.r, ToNum(Eval(e.a, env, lazy)), ToNum(Eval(e.b, env, lazy)))
    [] e.op = "not" -> LET a == Eval(e.a, env, lazy) IN
                       IF IsU(a) THEN a ELSE IF IsB(a) THEN B(~a.v) ELSE U("type")
    [] e.op \in {"and","or"} ->
                       LET vs == EvalArgs(e.args, env, lazy) IN
                       IF \E i \in 1..Len(vs) : IsU(vs[i]) THEN vs[CHOOSE i \in 1..Len(vs) : IsU(vs[i])]
                       ELSE IF \E i \in 1..Len(vs) : ~IsB(vs[i]) THEN U("type")
                       ELSE IF e.op = "and" THEN B(\A i \in 1..Len(vs) : vs[i].v)
                       ELSE B(\E i \in 1..Len(vs) : vs[i].v)
    [] e.op = "cond" -> LET c == Eval(e.c, env, lazy) IN
                       IF IsU(c) THEN c ELSE IF ~IsB(c) THEN U("type")
                       ELSE IF lazy THEN (IF c.v THEN ToNum(Eval(e.a, env, lazy)) ELSE ToNum(Eval(e.b, env, lazy)))
                       ELSE LET a == ToNum(Eval(e.a, env, lazy)) b == ToNum(Eval(e.b, env, lazy)) IN
                            IF IsU(a) THEN a ELSE IF IsU(b) THEN b ELSE IF c.v THEN a ELSE b
    [] e.op = "ccond" -> Eval(Desugar(e), env, lazy)

\* ---------------------------------------------------------------------------
\* symbolic differentiation with respect to the variable x (all other names constant)
RECURSIVE HasVar(_,_)
HasVar(e, x) == x \in Vars(e)
RECURSIVE Diff(_,_)
Diff(e, x) ==
  CASE e.op \in {"num","big","pi"} -> Zero
    [] e.op = "var" -> IF e.v = x THEN One ELSE Zero
    [] e.op = "pos" -> Diff(e.a, x)
    [] e.op = "neg" -> Neg(Diff(e.a, x))
    [] e.op \in {"add","sub"} -> Bn(e.op, Diff(e.a, x), Diff(e.b, x))
    [] e.op = "mul" -> Bn("add", Bn("mul", Diff(e.a, x), e.b), Bn("mul", e.a, Diff(e.b, x)))
    [] e.op = "div" -> Bn("div", Bn("sub", Bn("mul", Diff(e.a, x), e.b), Bn("mul", e.a, Diff(e.b, x))), Bn("mul", e.b, e.b))
    [] e.op = "pow" -> IF ~HasVar(e.a, x) /\ ~HasVar(e.b, x) THEN Zero
                       ELSE IF ~HasVar(e.b, x)
                       THEN Bn("mul", Bn("mul", e.b, Bn("pow", e.a, Bn("sub", e.b, One))), Diff(e.a, x))
                       ELSE Bn("mul", e, Bn("add", Bn("mul", Diff(e.b, x), Fn("log", e.a)),
                                                   Bn("div", Bn("mul", e.b, Diff(e.a, x)), e.a)))
    [] e.op = "mod" -> Diff(e.a, x)
    [] e.op \in {"rel","not","and","or","sign"} -> Zero
    [] e.op = "cond" -> Cond(e.c, Diff(e.a, x), Diff(e.b, x))
    [] e.op = "ccond" -> Diff(Desugar(e), x)
    [] e.op = "fn" ->
         IF ~HasVar(e.a, x) THEN Zero ELSE
         CASE e.f = "exp"   -> Bn("mul", e, Diff(e.a, x))
           [] e.f \in {"log","ln"} -> Bn("div", Diff(e.a, x), e.a)
           [] e.f = "sqrt"  -> Bn("div", Diff(e.a, x), Bn("mul", Two, e))
           [] e.f = "sin"   -> Bn("mul", Fn("cos", e.a), Diff(e.a, x))
           [] e.f = "cos"   -> Neg(Bn("mul", Fn("sin", e.a), Diff(e.a, x)))
           [] e.f = "tan"   -> Bn("div", Diff(e.a, x), Bn("mul", Fn("cos", e.a), Fn("cos", e.a)))
           [] e.f = "asin"  -> Bn("div", Diff(e.a, x), Fn("sqrt", Bn("sub", One, Bn("mul", e.a, e.a))))
           [] e.f = "acos"  -> Neg(Bn("div", Diff(e.a, x), Fn("sqrt", Bn("sub", One, Bn("mul", e.a, e.a)))))
           [] e.f = "atan"  -> Bn("div", Diff(e.a, x), Bn("add", One, Bn("mul", e.a, e.a)))
           [] e.f \in {"abs","Abs"} -> Bn("mul", Sign(e.a), Diff(e.a, x))
           [] e.f = "floor" -> Zero

\* ---------------------------------------------------------------------------
\* rendering as tokens.  style "full": every operand parenthesised; style "min": only the
\* parentheses the precedence ladder  expression > term > factor > power > atom  requires.
Level(e) == CASE e.op \in {"add","sub"} -> 1 [] e.op \in {"mul","div"} -> 2
              [] e.op \in {"neg","pos"} -> 3 [] e.op = "pow" -> 4 [] OTHER -> 5
OpTok(o) == CASE o = "add" -> "+" [] o = "sub" -> "-" [] o = "mul" -> "*" [] o = "div" -> "/" [] o = "pow" -> "**"
Par(s) == <<"(">> \o s \o <<")">>
RECURSIVE Render(_,_)
RenderArgs(args, style) ==
  LET RECURSIVE J(_)
      J(i) == IF i > Len(args) THEN <<>>
              ELSE (IF i > 1 THEN <<",">> ELSE <<>>) \o Render(args[i], style) \o J(i+1)
  IN J(1)
Wrap(e, style, minlevel) ==
  IF style = "full" THEN (IF Level(e) = 5 THEN Render(e, style) ELSE Par(Render(e, style)))
  ELSE IF Level(e) < minlevel THEN Par(Render(e, style)) ELSE Render(e, style)
Render(e, style) ==
  CASE e.op \in {"num","big"} -> <<e.tok>>
    [] e.op = "var" -> <<e.v>>
    [] e.op = "pi"  -> <<"pi">>
    [] e.op = "neg" -> <<"-">> \o Wrap(e.a, style, 3)
    [] e.op = "pos" -> <<"+">> \o Wrap(e.a, style, 3)
    [] e.op \in {"add","sub"} -> Wrap(e.a, style, 1) \o <<OpTok(e.op)>> \o Wrap(e.b, style, 2)
    [] e.op \in {"mul","div"} -> Wrap(e.a, style, 2) \o <<OpTok(e.op)>> \o Wrap(e.b, style, 3)
    [] e.op = "pow" -> Wrap(e.a, style, 5) \o <<"**">> \o Wrap(e.b, style, 3)
    [] e.op = "fn"  -> <<e.f, "(">> \o Render(e.a, style) \o <<")">>
    [] e.op = "mod" -> <<"Mod", "(">> \o Render(e.a, style) \o <<",">> \o Render(e.b, style) \o <<")">>
    [] e.op = "rel" -> <<e.r, "(">> \o Render(e.a, style) \o <<",">> \o Render(e.b, style) \o <<")">>
    [] e.op = "not" -> <<"Not", "(">> \o Render(e.a, style) \o <<")">>
    [] e.op = "and" -> <<"And", "(">> \o RenderArgs(e.args, style) \o <<")">>
    [] e.op = "or"  -> <<"Or", "(">> \o RenderArgs(e.args, style) \o <<")">>
    [] e.op = "cond" -> <<"Conditional", "(">> \o Render(e.c, style) \o <<",">> \o Render(e.a, style)
                        \o <<",">> \o Render(e.b, style) \o <<")">>
    [] e.op = "ccond" -> <<"ContinuousConditional", "(", e.r, "(">> \o Render(e.l, style) \o <<",">>
                        \o Render(e.rr, style) \o <<")", ",">> \o Render(e.a, style) \o <<",">> \o Render(e.b, style)
                        \o <<",">> \o Render(e.s, style) \o <<")">>

\* substitution of variables by expressions (used to expand intermediates)
RECURSIVE Subst(_,_)
Subst(e, m) ==
  CASE e.op \in {"num","big","pi"} -> e
    [] e.op = "var" -> IF e.v \in DOMAIN m THEN m[e.v] ELSE e
    [] e.op \in {"neg","pos","not","sign"} -> [e EXCEPT !.a = Subst(e.a, m)]
    [] e.op = "fn" -> [e EXCEPT !.a = Subst(e.a, m)]
    [] e.op \in {"and","or"} -> [e EXCEPT !.args = [i \in 1..Len(e.args) |-> Subst(e.args[i], m)]]
    [] e.op = "cond" -> Cond(Subst(e.c, m), Subst(e.a, m), Subst(e.b, m))
    [] e.op = "ccond" -> CCond(e.r, Subst(e.l, m), Subst(e.rr, m), Subst(e.a, m), Subst(e.b, m), Subst(e.s, m))
    [] OTHER -> [e EXCEPT !.a = Subst(e.a, m), !.b = Subst(e.b, m)]
=============================================================================
