------------------------------ MODULE MC_Ident ------------------------------
(***************************************************************************)
(* C19: model identifiers never collide with names the generated code uses *)
(* for itself.  A small model in which ONE identifier from the universe    *)
(* (generator locals, time names, helper names, Python / C keywords and    *)
(* library names, ordinary names) plays one role (state, parameter,        *)
(* intermediate).  The emitted function is executed in ONE flat namespace  *)
(* that also holds the template's own locals: a model name that rebinds    *)
(* one of them poisons every later use, exactly as in the generated code.  *)
(* The reference is the same model with a fresh identifier.                *)
(*   C19_NoCapture: the loader refuses the identifier, or the results are  *)
(*   those of the renamed model.                                           *)
(* ReservedCheck = TRUE is the design with the reserved-name check in the  *)
(* loader; FALSE shows which identifiers capture without it.               *)
(***************************************************************************)
EXTENDS Pipeline, Json
CONSTANTS ReservedCheck

NumLexDef == [t \in {"0","1","2","3","0.5","1.5","18"} |-> CASE t = "0.5" -> <<1,2>> [] t = "1.5" -> <<3,2>> [] t = "18" -> <<18,1>> [] t = "0" -> <<0,1>> [] t = "1" -> <<1,1>> [] t = "2" -> <<2,1>> [] t = "3" -> <<3,1>>]
N(tok) == NumOf(tok)

TemplateLocals == {"states", "parameters", "values", "shape", "missing_variables", "numpy", "dt", "t", "time"}
PyKeywords == {"lambda", "def", "if", "else", "for", "in", "is", "not", "and", "or", "class", "import", "from", "return",
               "None", "True", "False", "pass", "with", "as", "try", "global", "del", "yield", "while", "assert", "len"}
CKeywords == {"double", "int", "const", "void", "char", "float", "static", "struct", "switch", "case", "default", "goto",
              "sizeof", "long", "short", "unsigned", "break", "continue", "do", "enum", "typedef", "union", "restrict",
              "pow", "fabs", "fmod", "M_PI", "NULL", "strcmp", "name", "jax"}
\* x0, x1, x2: the names sympy's common-subexpression pass would give its temporaries (option use_cse)
Ordinary == {"x0", "x2", "x1", "Vm", "E", "I", "S", "N", "beta", "gamma", "Symbol", "oo", "_values_0", "_values_1", "zq_linearized", "g_to", "Gto", "expo", "pit", "logA"}
Universe == TemplateLocals \cup PyKeywords \cup CKeywords \cup Ordinary
Reserved == TemplateLocals \cup PyKeywords \cup CKeywords
\* "unused": a parameter that no expression reads (the generated functions unpack it all the same)
Roles == {"state", "param", "inter", "unused"}
Fresh == "zq"

\* the model with identifier id in role r
ModelOf(id, r) ==
  LET s == IF r = "state" THEN id ELSE "x"
      p == IF r = "param" THEN id ELSE "a"
      w == IF r = "inter" THEN id ELSE "w"
  IN [blocks |-> << [k |-> "states", comp |-> "", entries |-> <<[name |-> s, e |-> N("1.5")], [name |-> "y", e |-> N("0.5")]>>],
                    [k |-> "parameters", comp |-> "", entries |-> <<[name |-> p, e |-> N("2")]>> \o (IF r = "unused" THEN <<[name |-> id, e |-> N("3")]>> ELSE <<>>)],
                    [k |-> "expressions", comp |-> "", entries |->
                        <<[name |-> w, e |-> LET A == Bn("add", Bn("mul", Var(p), Var(s)), Var("y")) IN Bn("mul", A, A)],   \* a repeated sub-expression
                          \* two statements that do not mention the identifier, the second with a repeated sub-expression,
                          \* between its definition and its later uses
                          [name |-> "u", e |-> Bn("sub", Var(w), N("18"))],      \* (numbers chosen so that every value stays inside the rational bound)
                          [name |-> "v", e |-> LET UY == Bn("add", Var("u"), Var("y")) IN Bn("div", UY, Bn("add", N("2"), UY))],
                          [name |-> DName(s), e |-> Bn("add", Bn("sub", Var(w), Var(s)), Var("v"))],
                          [name |-> "dy_dt", e |-> Bn("mul", Var(s), Var(p))]>>] >>]
NameOrderDef == <<"E">>   \* not used for sorting here: the layout is compared by name only

VARIABLES pc, id, role
vars == <<pc, id, role>>
Init == pc = "pick" /\ id = "" /\ role = ""
Pick == pc = "pick" /\ id' \in Universe /\ role' \in Roles /\ pc' = "done"
Spec == Init /\ [][Pick]_vars
Done == pc = "done"

\* the loader with the reserved-name check
Outcome == IF ReservedCheck /\ id \in Reserved THEN "ReservedNameError" ELSE "ok"

\* flat-namespace execution of  rhs  and  explicit_euler  of the 2-state model, template locals included.
\* TPL marks a template local that still has its own meaning; a model name that rebinds it removes the mark.
TPL == [k |-> "tpl"]
Poison == U("captured")
Inp == [t |-> Q(1,2), dt |-> Q(1,8), s |-> Q(3,2), y |-> Q(-1,4), p |-> Q(3,1)]
Env0 == [n \in {"states", "parameters", "values", "shape", "missing_variables", "numpy"} |-> TPL] @@ [t |-> Inp.t, dt |-> Inp.dt]
Get(env, n) == IF n \in TimeNames THEN (IF "t" \in DOMAIN env THEN env["t"] ELSE Poison) ELSE IF n \in DOMAIN env THEN env[n] ELSE Poison
ArrayOk(env, arr) == arr \in DOMAIN env /\ env[arr] = TPL
\* statement list of the generated function, in the order the generator emits it (states by name order is
\* immaterial here: values are compared by name)
Run(m_id, r, scheme) ==
  LET s == IF r = "state" THEN m_id ELSE "x"
      p == IF r = "param" THEN m_id ELSE "a"
      w == IF r = "inter" THEN m_id ELSE "w"
      e1 == IF ArrayOk(Env0, "states") THEN Bind(Env0, s, Inp.s) ELSE Env0
      e2 == Bind(e1, "y", IF ArrayOk(e1, "states") THEN Inp.y ELSE Poison)
      e3p == Bind(e2, p, IF ArrayOk(e2, "parameters") THEN Inp.p ELSE Poison)
      e3 == IF r = "unused" THEN Bind(e3p, m_id, IF ArrayOk(e3p, "parameters") THEN Q(3,1) ELSE Poison) ELSE e3p
      V(env, n) == LET v == Get(env, n) IN IF v = TPL THEN Poison ELSE v
      av == Arith("add", Arith("mul", V(e3, p), V(e3, s)), V(e3, "y"))
      wv == Arith("mul", av, av)
      e4a == Bind(e3, w, wv)
      e4b == Bind(e4a, "u", Arith("sub", V(e4a, w), Q(18,1)))
      bv == Arith("add", V(e4b, "u"), V(e4b, "y"))
      e4 == Bind(e4b, "v", Arith("div", bv, Arith("add", Q(2,1), bv)))
      ds == Arith("add", Arith("sub", V(e4, w), V(e4, s)), V(e4, "v"))
      e5 == Bind(e4, DName(s), ds)
      dy == Arith("mul", V(e5, s), V(e5, p))
      e6 == Bind(e5, "dy_dt", dy)
      store(env, val) == IF ArrayOk(env, "values") THEN val ELSE Poison
  IN IF scheme = "rhs" THEN [first |-> store(e5, V(e5, DName(s))), second |-> store(e6, V(e6, "dy_dt"))]
     ELSE [first |-> store(e5, Arith("add", V(e5, s), Arith("mul", V(e5, "dt"), V(e5, DName(s))))),
           second |-> store(e6, Arith("add", V(e6, "y"), Arith("mul", V(e6, "dt"), V(e6, "dy_dt"))))]

C19_NoCapture == Done => (Outcome # "ok" \/ \A sc \in {"rhs", "explicit_euler"} : Run(id, role, sc) = Run(Fresh, role, sc))
\* what the specification predicts for the design without the check (reported, used for the reserved list)
Captures == \E sc \in {"rhs", "explicit_euler"} : Run(id, role, sc) # Run(Fresh, role, sc)

mi == Info(ModelOf(Fresh, role))
FInp == [t |-> Inp.t, dt |-> Inp.dt, states |-> (IF role = "state" THEN (Fresh :> Inp.s) ELSE ("x" :> Inp.s)) @@ ("y" :> Inp.y),
         params |-> IF role = "param" THEN (Fresh :> Inp.p) ELSE IF role = "unused" THEN ("a" :> Inp.p) @@ (Fresh :> Q(3,1)) ELSE ("a" :> Inp.p),
         missing |-> <<>>]
RenameKey(f) == [n \in {IF k = Fresh THEN "ID" ELSE IF k = DName(Fresh) THEN "dID_dt" ELSE k : k \in DOMAIN f} |->
                   IF n = "ID" THEN f[Fresh] ELSE IF n = "dID_dt" THEN f[DName(Fresh)] ELSE f[n]]
Emit == Done => PrintT(ToJson([id |-> id, role |-> role, reserved |-> (id \in Reserved), spec_outcome |-> Outcome, spec_captures |-> Captures,
                               input |-> [t |-> Inp.t, dt |-> Inp.dt, s |-> Inp.s, y |-> Inp.y, p |-> Inp.p],
                               den |-> RenameKey(DenAll(mi, FInp)), euler |-> RenameKey(DenEuler(mi, FInp)),
                               grl |-> RenameKey(DenGRL(mi, FInp, Q(0,1), mi.sN))]))
=============================================================================
