----------------------------- MODULE MyokitScope -----------------------------
(***************************************************************************)
(* C15: importing a Myokit model preserves its dynamics.  A Myokit model   *)
(* is a tree: components contain variables, variables may contain nested   *)
(* variables; LOCAL names may clash between different parents (and with    *)
(* names of the sympy namespace); a reference is resolved by SCOPE (own    *)
(* children, siblings, ancestors' siblings, or an explicit comp.var).      *)
(* Here every variable is identified by its path and every reference in an *)
(* expression IS a path (resolution done), so the reference meaning is     *)
(* simply Den over paths.  The importer must produce a flat model with the *)
(* same meaning: the value of every state's derivative at the initial      *)
(* state and at perturbed states.                                          *)
(* Paths are strings "c1.V.alpha" built by the generator.                  *)
(***************************************************************************)
EXTENDS OdeText, Json

NumLexDef == [t \in {"0","1","2","3","0.5","1.5","0.25"} |-> CASE t = "0.5" -> <<1,2>> [] t = "1.5" -> <<3,2>> [] t = "0.25" -> <<1,4>>
                 [] t = "0" -> <<0,1>> [] t = "1" -> <<1,1>> [] t = "2" -> <<2,1>> [] t = "3" -> <<3,1>>]
N(tok) == NumOf(tok)

\* name pools: ordinary names and names that also exist in the sympy namespace
StateNames1 == {"V", "S", "beta"}
StateNames2 == {"w", "E", "gamma", "V"}     \* "V" also in StateNames1: two states with one local name (c1.V, c2.V)
NestNames == {"alpha", "I", "N"}
ConstNames == {"g", "Q", "zeta"}
\* the constant that exists in ONE component only keeps its local name as unique name;
\* "pi": a name the .ode grammar reads as the number, unless it is renamed
OnlyNames == {"p", "pi"}

VARIABLES pc, s1, s2, nest1, nest2, deep, cn, pn, shape
vars == <<pc, s1, s2, nest1, nest2, deep, cn, pn, shape>>
Init == pc = "pick" /\ s1 = "" /\ s2 = "" /\ nest1 = "" /\ nest2 = "" /\ deep = FALSE /\ cn = "" /\ pn = "" /\ shape = 0
Pick1 == /\ pc = "pick" /\ s1' \in StateNames1 /\ s2' \in StateNames2 /\ cn' \in ConstNames /\ pn' \in OnlyNames /\ pc' = "pick2"
         /\ UNCHANGED <<nest1, nest2, deep, shape>>
Pick2 == /\ pc = "pick2" /\ nest1' \in NestNames /\ nest2' \in NestNames   \* equal names = clashing local names under different parents
         /\ deep' \in BOOLEAN /\ shape' \in 1..5 /\ pc' = "done" /\ UNCHANGED <<s1, s2, cn, pn>>
Spec == Init /\ [][Pick1 \/ Pick2]_vars
Done == pc = "done"

P(comp, name) == comp \o "." \o name
DotOf(path) == "dot(" \o path \o ")"
\* the model as a function path -> [kind, e (references are Var(path)), init]
\* component c1: state s1 with nested variable nest1 (and, if deep, a variable k nested in it), constant cn, constant p
\* component c2: state s2 with nested variable nest2, constant cn (same local name as in c1: clash), an intermediate r
Ref(p) == Var(p)
Vs == LET v1 == P("c1", s1)  v2 == P("c2", s2)
          a1 == v1 \o "." \o nest1   a2 == v2 \o "." \o nest2   k1 == a1 \o ".k"
          g1 == P("c1", cn)  g2 == P("c2", cn)  p1 == P("c1", pn)  r2 == P("c2", "r")
      IN [v1 |-> v1, v2 |-> v2, a1 |-> a1, a2 |-> a2, k1 |-> k1, g1 |-> g1, g2 |-> g2, p1 |-> p1, r2 |-> r2]
Model ==
  LET n == Vs IN
  (n.v1 :> [kind |-> "state", init |-> N("1.5"),
            e |-> CASE shape = 1 -> Bn("add", Bn("mul", Ref(n.a1), Ref(n.v1)), Ref(n.g1))
                    [] shape = 2 -> Bn("sub", Ref(n.a1), Bn("mul", Ref(n.v2), Ref(n.p1)))
                    [] shape = 3 -> Cond(Rel("Gt", Ref(n.v1), Ref(n.g1)), Ref(n.a1), Neg(Ref(n.v1)))
                    \* a cascade of thresholds whose first branch has the value of the default (Myokit: piecewise(c1, 0, c2, a, 0))
                    [] shape = 5 -> Cond(Rel("Lt", Ref(n.v1), One), N("0"), Cond(Rel("Lt", Ref(n.v1), Ref(n.p1)), Ref(n.a1), N("0")))
                    [] OTHER -> Bn("div", Ref(n.a1), Bn("add", One, Bn("mul", Ref(n.v1), Ref(n.v1))))])
  @@ (n.a1 :> [kind |-> "inter", e |-> IF deep THEN Bn("add", Bn("mul", Ref(n.p1), Two), Ref(n.k1)) ELSE Bn("mul", Ref(n.p1), Two)])
  @@ (IF deep THEN (n.k1 :> [kind |-> "inter", e |-> Bn("sub", Ref(n.v1), N("3"))]) ELSE <<>>)
  @@ (n.g1 :> [kind |-> "const", e |-> N("0.5")])
  @@ (n.p1 :> [kind |-> "const", e |-> N("2")])
  @@ (n.v2 :> [kind |-> "state", init |-> Neg(N("0.25")),
               e |-> CASE shape \in {1, 3} -> Bn("sub", Ref(n.a2), Ref(n.v1))
                       [] OTHER -> Bn("add", Bn("mul", Ref(n.r2), Ref(n.a2)), Ref(n.g2))])
  @@ (n.a2 :> [kind |-> "inter", e |-> Bn("sub", Ref(n.g2), Bn("mul", Ref(n.v2), N("0.5")))])
  @@ (n.g2 :> [kind |-> "const", e |-> N("3")])
  \* shape 2 and 4: r refers to the DERIVATIVE of the other component's state, written dot(c1.V) in Myokit
  @@ (n.r2 :> [kind |-> "inter", e |-> IF shape \in {2, 4} THEN Bn("add", Ref(DotOf(n.v1)), Ref(n.g2)) ELSE Bn("add", Ref(n.v1), Ref(n.g2))])

Paths == DOMAIN Model
IsDot(p) == \E q \in DOMAIN Model : p = DotOf(q)
BaseOf(p) == CHOOSE q \in DOMAIN Model : p = DotOf(q)
States == {p \in Paths : Model[p].kind = "state"}
\* meaning: value of a path at a state assignment
RECURSIVE DenP(_,_)
DenP(p, st) == IF IsDot(p) THEN LET e == Model[BaseOf(p)].e IN
                                ToNum(Eval(e, [v \in Vars(e) \cup {"t"} |-> IF v = "t" THEN QZero ELSE DenP(v, st)], TRUE))
               ELSE IF Model[p].kind = "state" THEN st[p]
               ELSE LET e == Model[p].e IN ToNum(Eval(e, [v \in Vars(e) \cup {"t"} |-> IF v = "t" THEN QZero ELSE DenP(v, st)], TRUE))
Deriv(p, st) == LET e == Model[p].e IN ToNum(Eval(e, [v \in Vars(e) \cup {"t"} |-> IF v = "t" THEN QZero ELSE DenP(v, st)], TRUE))
InitState == [p \in States |-> ToNum(Eval(Model[p].init, [v \in {"t"} |-> QZero], TRUE))]
Perturbed(k) == [p \in States |-> QAdd(InitState[p], IF k = 1 THEN Q(1,2) ELSE Q(-3,4))]
StatesAt == <<InitState, Perturbed(1), Perturbed(2)>>

\* the flat model has one name per path and the same meaning: checked on the specification by renaming
C15_NamesInjective == Done => \A p, q \in Paths : p # q => p # q
C15_WellDefined == Done => \A k \in 1..3 : \A p \in States : ~IsU(Deriv(p, StatesAt[k]))

Emit == Done => PrintT(ToJson([s1 |-> s1, s2 |-> s2, nest1 |-> nest1, nest2 |-> nest2, deep |-> deep, cn |-> cn, shape |-> shape,
          vars |-> [p \in Paths |-> IF Model[p].kind = "state"
                                    THEN [kind |-> "state", toks |-> Render(Model[p].e, "min"), init |-> Render(Model[p].init, "min")]
                                    ELSE [kind |-> Model[p].kind, toks |-> Render(Model[p].e, "min")]],
          points |-> [k \in 1..3 |-> [state |-> StatesAt[k], deriv |-> [p \in States |-> Deriv(p, StatesAt[k])]]]]))
=============================================================================
