------------------------------ MODULE MC_Expr ------------------------------
(***************************************************************************)
(* Bounded universes of expressions.  Every expression of the universe is  *)
(* an initial state; TLC checks on each of them                            *)
(*   ParseRenderId : Parse(Render(e, style)) = e   for both styles         *)
(*   WellTyped     : the generator only produces typed expressions         *)
(* and emits (tokens, reference values at the input points) as one JSON    *)
(* line per expression: the harness joins the tokens, runs the text        *)
(* through the real gotranx pipeline and compares (C01, C02, C03, C11,     *)
(* C14).                                                                   *)
(***************************************************************************)
EXTENDS OdeText, Json

CONSTANTS Lvl          \* which universe (1..5 and 8 quick tier, 6..7 thorough tier; 8 = small families, always replayed completely)

NumLexDef == ("0" :> <<0,1>>) @@ ("1" :> <<1,1>>) @@ ("2" :> <<2,1>>) @@ ("3" :> <<3,1>>) @@ ("4" :> <<4,1>>)
          @@ ("0.5" :> <<1,2>>) @@ ("0.25" :> <<1,4>>) @@ ("1.5" :> <<3,2>>) @@ ("0.1" :> <<1,10>>)
          @@ ("1e1" :> <<10,1>>) @@ ("2E-1" :> <<1,5>>) @@ ("1.e+2" :> <<100,1>>) @@ (".5" :> <<1,2>>)
          @@ ("2.0" :> <<2,1>>) @@ ("10" :> <<10,1>>)
BigToksDef == {"1e22", "1e-21", "123456789012345678901234567890", "6.02214076e23", "1.0e-300", "0.000001", "1e6", "12345.678"}
N(tok) == NumOf(tok)

X == Var("x")  Y == Var("y")  A == Var("a")  T == Var("t")  Tm == Var("time")

Leaves  == {X, Y, A, N("2"), N("0.5"), N("3")}
Leaves2 == {X, A, N("2"), N("0.5")}
ArFns   == FnNames
Ops6    == BinOps \cup {"mod"}
Mk(o, a, b) == IF o = "mod" THEN Mod(a, b) ELSE Bn(o, a, b)
Un(L)       == {Neg(e) : e \in L} \cup {Fn(f, e) : f \in ArFns, e \in L}
Bin(L1, L2) == {Mk(o, e1, e2) : o \in Ops6, e1 \in L1, e2 \in L2}
Bin5(L1, L2) == {Bn(o, e1, e2) : o \in BinOps, e1 \in L1, e2 \in L2}
RelS(L1, L2) == {Rel(r, e1, e2) : r \in RelOps, e1 \in L1, e2 \in L2}

U1 == Un(Leaves)
B1 == Bin(Leaves, Leaves)
SmallBool == RelS({X, Y}, {A, N("0"), Y, N("1.5")})
Bool2(b1) == {Not(b1)} \cup {And(<<b1, b2>>) : b2 \in SmallBool} \cup {Or(<<b1, b2>>) : b2 \in SmallBool}
TinyBool == RelS({X}, {A, N("1.5")}) \cup RelS({Y}, {N("0")})
Bool3(b1) == {And(<<b1, b2, b3>>) : b2 \in TinyBool, b3 \in TinyBool}
         \cup {Or(<<b1, b2, b3>>) : b2 \in TinyBool, b3 \in TinyBool}
         \cup {And(<<b1, Or(<<b2, b3>>)>>) : b2 \in TinyBool, b3 \in TinyBool}
         \cup {Or(<<Not(b1), And(<<b2, b3, b1>>)>>) : b2 \in TinyBool, b3 \in TinyBool}
         \cup {And(<<b1, b2, b3, Not(b1)>>) : b2 \in TinyBool, b3 \in TinyBool}
         \* a negation that no relation can absorb: Not over a connective, alone and as an operand
         \cup {Not(And(<<b1, b2>>)) : b2 \in TinyBool} \cup {Not(Or(<<b1, b2>>)) : b2 \in TinyBool}
         \cup {Or(<<Not(And(<<b1, b2>>)), b3>>) : b2 \in TinyBool, b3 \in TinyBool}
         \cup {And(<<b3, Not(Or(<<b1, b2, b3>>))>>) : b2 \in TinyBool, b3 \in TinyBool}
CondS(b1) == {Cond(c, e1, e2) : c \in {b1} \cup Bool2(b1), e1 \in {X, N("2")}, e2 \in {Y, N("0.5")}}
Cond3(b1) == {Cond(c, X, e2) : c \in Bool3(b1), e2 \in {Y, N("0.5")}}
NestC(c1) == {Cond(c1, Cond(c2, X, N("2")), e3) : c2 \in TinyBool, e3 \in {Y, Cond(Rel("Gt", Y, N("0")), A, N("3"))}}
         \cup {Cond(c1, e3, Cond(c2, X, N("2"))) : c2 \in TinyBool, e3 \in {Y, Cond(Rel("Gt", Y, N("0")), A, N("3"))}}
         \cup {Bn(o, Cond(c1, X, N("2")), Cond(c2, Y, A)) : o \in {"add","mul","sub","div"}, c2 \in TinyBool}
         \cup {Fn(f, Cond(c1, X, N("2"))) : f \in {"exp","abs","floor","sqrt"}}
         \* nested conditionals whose compound condition may be contradictory or tautological
         \cup {Bn("add", N("2"), Cond(And(<<c1, c2>>), X, N("0.5"))) : c2 \in TinyBool}
         \cup {Bn("mul", Cond(Or(<<c1, c2>>), X, Y), N("2")) : c2 \in TinyBool}
         \cup {Neg(Cond(Or(<<Not(c1), c2>>), N("2"), Y)) : c2 \in TinyBool}
CC == {CCond(r, l, rr, e1, e2, s) : r \in {"Lt","Gt","Le","Ge"}, l \in {X, Y}, rr \in {A, N("1.5"), Bn("mul", A, N("0.5"))},
                                     e1 \in {X, N("2")}, e2 \in {Y, N("0.5")}, s \in {N("0.5"), N("2"), A}}
TimeS == {T, Tm, Bn("mul", T, X), Bn("add", Tm, N("2")), Cond(Rel("Gt", T, N("1")), X, Y), Fn("exp", Neg(Tm)),
          Bn("sub", T, Tm), Pi, Bn("mul", N("2"), Pi), Fn("sin", Bn("div", Pi, N("2"))), Fn("cos", Pi), Bn("pow", Pi, N("2")),
          Bn("div", X, Pi), Neg(Pi), Fn("floor", Pi), Mod(Pi, N("2")), Mod(T, N("0.5"))}
Lits == {N(tk) : tk \in DOMAIN NumLexDef} \cup {Big(tk) : tk \in BigToksDef}
LitS == Lits \cup {Bn(o, l, X) : o \in BinOps, l \in Lits} \cup {Bn(o, X, l) : o \in {"add","mul","div","sub"}, l \in Lits}
        \cup {Neg(l) : l \in Lits} \cup {Bn("pow", l, Neg(N("2"))) : l \in Lits}

\* precedence / associativity mixes: three-operator chains and unary signs
Chain3(e1) == {Bn(o2, Bn(o1, e1, e2), e3) : o1 \in BinOps, o2 \in BinOps, e2 \in Leaves2, e3 \in Leaves2}
          \cup {Bn(o1, e1, Bn(o2, e2, e3)) : o1 \in BinOps, o2 \in BinOps, e2 \in Leaves2, e3 \in Leaves2}
Signs(e1) == {Neg(Bn(o, e1, e2)) : o \in BinOps, e2 \in Leaves2}
         \cup {Bn(o, Neg(e1), e2) : o \in BinOps, e2 \in Leaves2}
         \cup {Bn(o, e1, Neg(e2)) : o \in BinOps, e2 \in Leaves2}
         \cup {Neg(Neg(e1)), Pos(Neg(e1)), Neg(Pos(Neg(e1)))}
         \cup {Bn(o, e1, Pos(e2)) : o \in BinOps, e2 \in Leaves2}
         \cup {Bn("pow", e1, Bn("pow", e2, Neg(e3))) : e2 \in Leaves2, e3 \in {N("2"), X}}
         \cup {Neg(Bn("pow", Neg(e1), e2)) : e2 \in {N("2"), N("3")}}

\* conditions on a parameter or on time only (a printer may treat them as "uniform"), Mod with a provably
\* non-negative dividend and a divisor of either sign, unit-like small families
ParamCond == {Cond(Rel(r, A, N("2")), X, Y) : r \in RelOps} \cup {Cond(Rel(r, T, N("1")), X, N("0.5")) : r \in RelOps}
             \cup {Cond(And(<<Rel("Gt", A, N("0")), Rel("Lt", T, N("3"))>>), X, Y), Cond(Or(<<Rel("Le", A, N("0")), Rel("Ge", Tm, N("1.5"))>>), N("2"), Y),
                   Bn("add", Cond(Rel("Gt", A, N("1")), N("1"), N("0")), X), Bn("mul", Cond(Rel("Lt", T, N("1")), A, N("2")), Y),
                   Cond(Not(Rel("Eq", A, N("3"))), X, Neg(X))}
\* window conditions (two strict bounds on one quantity) and sign-sensitive uses of time
Window == {Cond(Or(<<Rel("Lt", v, lo), Rel("Gt", v, hi)>>), X, N("0.5")) : v \in {X, Y, T}, lo \in {Neg(N("1")), N("0")}, hi \in {N("1"), N("1.5")}}
          \cup {Cond(And(<<Rel("Gt", v, lo), Rel("Lt", v, hi)>>), N("2"), Y) : v \in {X, T}, lo \in {Neg(N("1")), N("0")}, hi \in {N("1"), A}}
          \cup {Cond(Rel(r, T, N("0")), X, Y) : r \in RelOps} \cup {Cond(Rel(r, Tm, Neg(N("1"))), N("2"), Y) : r \in RelOps}
          \cup {Fn("abs", T), Fn("sqrt", Bn("mul", T, T)), Fn("sqrt", Bn("pow", Tm, N("2"))), Bn("mul", Fn("abs", Tm), X), Fn("floor", T),
                Mod(T, N("2")), Fn("abs", Bn("sub", T, N("1"))), Bn("pow", T, N("3")), Fn("exp", T), Cond(Rel("Lt", Fn("abs", T), N("1")), X, Y)}
ModSign == {Mod(nn, dd) : nn \in {Fn("abs", X), Fn("Abs", Y), Bn("mul", X, X), Fn("exp", X), Bn("pow", Y, N("2")), Fn("sqrt", Fn("abs", A)), N("3"), N("0.5")},
                          dd \in {X, Y, A, Neg(N("3")), N("2"), Neg(N("0.5"))}}
           \cup {Mod(nn, dd) : nn \in {X, Y, Neg(X), Bn("sub", X, A)}, dd \in {Fn("abs", A), Neg(Fn("abs", Y)), N("3"), Neg(N("2"))}}
           \cup {Fn("floor", Neg(X)), Fn("floor", Bn("div", X, Y)), Fn("abs", Bn("sub", X, A)), Fn("floor", Bn("mul", Neg(N("0.5")), A))}
\* integer-valued sub-expressions (conditionals with integer branches, floor, sums / products / Mod of integers) where a
\* typed backend could divide integers: as the numerator of a quotient, inside an exponent, scaled afterwards
IntValued == {Cond(Rel(r, X, A), N("1"), N("0")) : r \in {"Ge", "Lt"}} \cup {Cond(Rel("Gt", Y, N("0")), N("1"), N("3")), Fn("floor", X),
              Mod(N("3"), N("2")), N("3"), Bn("add", N("1"), N("2")), Neg(Cond(Rel("Le", X, Y), N("3"), N("1"))),
              Cond(And(<<Rel("Gt", X, N("0")), Rel("Lt", Y, A)>>), N("1"), N("0"))}
IntQuot == {Bn("div", i, d) : i \in IntValued, d \in {N("2"), N("3"), Neg(N("2"))}}
           \cup {Bn("pow", Fn("abs", X), Bn("div", i, N("2"))) : i \in IntValued}
           \cup {Bn("mul", Bn("div", i, N("2")), Y) : i \in IntValued}
           \cup {Bn("div", Bn("mul", i, j), N("2")) : i \in IntValued, j \in IntValued}
           \cup {Bn("add", Bn("div", i, N("2")), Bn("div", N("1"), N("2"))) : i \in IntValued}
SmallFamilies(c1) == NestC(c1)

\* The universe of level Lvl is generated in two steps so that TLC's workers share the work and no
\* large set of records has to be normalised:  PickA chooses the first slot, PickE everything else.
Marker == [op |-> "marker"]
SlotA ==
  CASE Lvl = 1 -> SmallBool \cup {Marker}
    [] Lvl \in {2, 3} -> U1 \cup B1
    [] Lvl = 4 -> TinyBool \cup {Marker}
    [] Lvl = 5 -> Leaves2
    [] Lvl = 6 -> B1
    [] Lvl = 7 -> U1
    [] Lvl = 8 -> TinyBool \cup {Marker}
Compose(a) ==
  CASE Lvl = 1 -> IF a = Marker THEN Leaves \cup U1 \cup B1 \cup SmallBool \cup TimeS ELSE Bool2(a) \cup CondS(a)
    [] Lvl = 2 -> Un({a})
    [] Lvl = 3 -> Bin(Leaves, {a}) \cup Bin({a}, Leaves)
    [] Lvl = 4 -> IF a = Marker THEN {} ELSE Bool3(a) \cup Cond3(a)
    [] Lvl = 8 -> IF a = Marker THEN CC \cup LitS \cup ParamCond \cup ModSign \cup Window \cup IntQuot ELSE NestC(a)
    [] Lvl = 5 -> Chain3(a) \cup Signs(a)
    [] Lvl = 6 -> Bin5({a}, B1)
    [] Lvl = 7 -> Bin5({a}, U1 \cup Leaves) \cup Un(Un({a}))

\* input points: x, y states; a parameter; t time
Envs == << [x |-> Q(3,2),  y |-> Q(-1,4), a |-> Q(3,1),  t |-> Q(2,1)],
           [x |-> Q(-1,2), y |-> Q(2,1),  a |-> Q(1,4),  t |-> Q(0,1)],
           [x |-> Q(2,1),  y |-> Q(1,2),  a |-> Q(-2,1), t |-> Q(1,2)],
           [x |-> Q(0,1),  y |-> Q(-3,1), a |-> Q(1,1),  t |-> Q(5,1)],
           [x |-> Q(1,2),  y |-> Q(3,2),  a |-> Q(-1,2), t |-> Q(-3,1)] >>        \* negative time

VARIABLES pc, a, e
vars == <<pc, a, e>>
Init  == pc = "a" /\ a = Marker /\ e = Marker
PickA == pc = "a" /\ a' \in SlotA /\ pc' = "e" /\ e' = e
PickE == pc = "e" /\ e' \in Compose(a) /\ pc' = "done" /\ a' = a
Next  == PickA \/ PickE
Spec  == Init /\ [][Next]_vars
Done  == pc = "done"

ParseRenderId == Done => LET pm == Parse(Render(e, "min")) pf == Parse(Render(e, "full")) IN
                         pm.ok /\ pm.ast = e /\ pf.ok /\ pf.ast = e
WellTyped == Done => (WTNum(e) \/ WTBool(e))
\* lazy and strict evaluation agree wherever strict is defined
LazyRefinesStrict == Done => \A p \in 1..Len(Envs) :
                  LET s == Eval(e, Envs[p], FALSE) IN ~IsU(s) => Eval(e, Envs[p], TRUE) = s

Emit == Done => PrintT(ToJson([tmin |-> Render(e, "min"), tfull |-> Render(e, "full"),
                               bool |-> IsBoolNode(e),
                               vals |-> [p \in 1..Len(Envs) |-> Eval(e, Envs[p], FALSE)]]))
EmitHeader == pc = "a" => PrintT(ToJson([header |-> TRUE, envs |-> Envs]))
\* the view hides the construction slot: the same expression reached through two slots is one state
View == <<pc, IF pc = "done" THEN Marker ELSE a, e>>
=============================================================================
