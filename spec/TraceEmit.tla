----------------------------- MODULE TraceEmit -----------------------------
(***************************************************************************)
(* Trace validation of EMITTED CODE (leg L3, code -> spec).                *)
(*                                                                         *)
(* One trace = the statement skeleton of one generated function, recorded  *)
(* from the real code generator (through the Emit hook or from the text    *)
(* of a generated module), together with the index maps in force.  The     *)
(* trace is consumed one statement per step; at every step the rules the   *)
(* properties impose on generated code are evaluated:                      *)
(*   use-before-def   a statement reads only formals, template locals or   *)
(*                    names written by an earlier statement     (C01, C12) *)
(*   unpack-slot      x = states[i] / parameters[i] / missing_variables[i] *)
(*                    uses the slot the index map gives x        (C04, C13)*)
(*   store-slot       values[i] receives the derivative (rhs, schemes: of  *)
(*                    the state that owns slot i; schemes also read that   *)
(*                    state), the monitored name with monitor index i, or  *)
(*                    the requested missing value with slot i (C04,C05,C13)*)
(*   store-twice      no slot is written twice                       (C04) *)
(*   redefinition     no name is bound twice and no formal or template     *)
(*                    local is rebound by a model name          (C19, C02) *)
(*   scheme-guard     the exponential update is selected by |linearisation| >  *)
(*                    delta (the delta passed), strictly; else Euler        *)
(*   scheme-choice    a Rush-Larsen scheme uses the exponential update for  *)
(*                    exactly the requested stiff states whose rate depends *)
(*                    on themselves                                  (C07) *)
(*   layout-from-sort the index maps are the ones the recorded sort of the  *)
(*                    complete graph determines                 (C04, C12) *)
(*   return-order     a functional (JAX) return lists _values_0.._values_n-1 *)
(*                    in slot order                              (C03, C13) *)
(*   lengths          at return the written slots are exactly 0..n-1 and   *)
(*                    the declared number of returned entries is n   (C03) *)
(* A failing rule does not stop the trace: it is recorded and the rest of  *)
(* the trace is still checked.  The verdict is total: one JSON line per    *)
(* trace with the list of (line, rule) failures.                           *)
(***************************************************************************)
EXTENDS Integers, Sequences, FiniteSets, TLC, Json, IOUtils

Traces == ndJsonDeserialize(IOEnv.TRACE_FILE)

VARIABLES tid, l, defined, stored, fails
vars == <<tid, l, defined, stored, fails>>

ToSet(s) == {s[i] : i \in 1..Len(s)}
T == Traces[tid]
Ev == T.stmts[l]
Has(f, k) == k \in DOMAIN f

Init == /\ tid \in 1..Len(Traces)
        /\ l = 1
        /\ defined = ToSet(Traces[tid].formals)
        /\ stored = <<>>
        /\ fails = <<>>

Binds(ev) == IF ev.k \in {"unpackS", "unpackP", "unpackM", "def", "alloc"} THEN {ev.name} ELSE {}
Reads(ev) == IF ev.k \in {"def", "alloc", "store", "return", "other"} THEN ToSet(ev.uses) ELSE {}

UnpackOk(ev) ==
  CASE ev.k = "unpackS" -> Has(T.state_index, ev.name) /\ T.state_index[ev.name] = ev.slot
    [] ev.k = "unpackP" -> Has(T.parameter_index, ev.name) /\ T.parameter_index[ev.name] = ev.slot
    [] ev.k = "unpackM" -> Has(T.missing_index, ev.name) /\ T.missing_index[ev.name] = ev.slot
    [] OTHER -> TRUE

StoreOk(ev) ==
  CASE T.kind = "rhs" ->
         \E d \in ToSet(ev.uses) : Has(T.derivs, d) /\ Has(T.state_index, T.derivs[d]) /\ T.state_index[T.derivs[d]] = ev.slot
    [] T.kind = "scheme" ->
         \E d \in ToSet(ev.uses) : /\ Has(T.derivs, d) /\ Has(T.state_index, T.derivs[d])
                                   /\ T.state_index[T.derivs[d]] = ev.slot
                                   /\ T.derivs[d] \in ToSet(ev.uses)
    [] T.kind = "monitor" ->
         (DOMAIN T.monitor_index = {}) \/ \E n \in ToSet(ev.uses) : Has(T.monitor_index, n) /\ T.monitor_index[n] = ev.slot
    [] T.kind = "missing" ->
         \E n \in ToSet(ev.uses) : Has(T.requested, n) /\ T.requested[n] = ev.slot
    [] OTHER -> TRUE

\* C04 across events: the index maps in force when a function is emitted are the ones the preceding
\* sort of the COMPLETE assignment graph determines: state slots = order of the derivatives, monitor slots = order
\* of the assignments (T.full_order is the SortOrder event recorded in the same process; empty = not recorded)
DerivsInOrder == SelectSeq(T.full_order, LAMBDA n : Has(T.derivs, n))
LayoutFromSortOk ==
  \/ T.full_order = <<>>
  \/ /\ \A i \in 1..Len(DerivsInOrder) : Has(T.state_index, T.derivs[DerivsInOrder[i]]) /\ T.state_index[T.derivs[DerivsInOrder[i]]] = i - 1
     /\ Len(DerivsInOrder) = Cardinality(DOMAIN T.state_index)
     /\ (DOMAIN T.monitor_index = {} \/ \A i \in 1..Len(T.full_order) : Has(T.monitor_index, T.full_order[i]) /\ T.monitor_index[T.full_order[i]] = i - 1)

\* C07: in a Rush-Larsen scheme the store of state X reads the linearisation d<X>_dt_linearized exactly when
\* the scheme decided to use the exponential update for X; T.stiff is the set of states the caller asked for
\* (generalized: every state), T.zero_slope the states whose rate does not depend on themselves
SchemeChoiceOk(ev) ==
  IF T.kind # "scheme" \/ ~T.check_choice THEN TRUE ELSE
  \A d \in ToSet(ev.uses) :
     (Has(T.derivs, d) /\ Has(T.state_index, T.derivs[d]) /\ T.state_index[T.derivs[d]] = ev.slot) =>
        LET x == T.derivs[d]
            wantRL == (T.all_stiff \/ x \in ToSet(T.stiff)) /\ x \notin ToSet(T.zero_slope)
            usesLin == \E u \in ToSet(ev.uses) : u = T.lin[d]
        IN wantRL = usesLin

\* C06: where the exponential update is used it sits behind the guard: the selection reads the linearisation and no
\* other quantity of the model or of the call, every number in it is the delta the caller passed, and it is strict
\* (|g| = delta takes the Euler branch); the exponential branch reads the linearisation, the other one the rate.
\* (Only what the property fixes: HOW the comparison is spelled - abs(), two inequalities, a local holding the
\* threshold - is left open; the values are the business of the numeric replay.)
SchemeGuardOk(ev) ==
  IF T.kind # "scheme" \/ ~T.check_choice \/ T.delta = "" THEN TRUE ELSE
  \A d \in ToSet(ev.uses) :
     (Has(T.derivs, d) /\ Has(T.state_index, T.derivs[d]) /\ T.state_index[T.derivs[d]] = ev.slot) =>
        LET x == T.derivs[d]
            wantRL == (T.all_stiff \/ x \in ToSet(T.stiff)) /\ x \notin ToSet(T.zero_slope)
            g == ev.guard
            \* names that carry a value of the model or of the call; a local that merely holds the threshold is none
            ModelNames == DOMAIN T.state_index \cup DOMAIN T.parameter_index \cup DOMAIN T.derivs
                          \cup {T.lin[k] : k \in DOMAIN T.lin} \cup ToSet(T.full_order) \cup {"dt", "t"}
        IN wantRL => /\ g.present
                     /\ T.lin[d] \in ToSet(g.cond_uses)
                     /\ ToSet(g.cond_uses) \cap ModelNames = {T.lin[d]}
                     /\ ToSet(g.consts) \subseteq {T.delta}
                     /\ g.strict
                     /\ T.lin[d] \in ToSet(g.then_uses)
                     /\ d \in ToSet(g.else_uses)

RuleFails(ev) ==
     (IF ~(Reads(ev) \subseteq defined) THEN {"use-before-def"} ELSE {})
  \cup (IF ~UnpackOk(ev) THEN {"unpack-slot"} ELSE {})
  \cup (IF Binds(ev) \cap defined # {} THEN {"redefinition"} ELSE {})
  \cup (IF ev.k = "store" /\ ~StoreOk(ev) THEN {"store-slot"} ELSE {})
  \cup (IF ev.k = "store" /\ ev.slot \in ToSet(stored) THEN {"store-twice"} ELSE {})
  \cup (IF ev.k = "store" /\ ~SchemeChoiceOk(ev) THEN {"scheme-choice"} ELSE {})
  \cup (IF ev.k = "store" /\ SchemeChoiceOk(ev) /\ ~SchemeGuardOk(ev) THEN {"scheme-guard"} ELSE {})
  \cup (IF ev.k = "store" /\ T.needs_alloc /\ "values" \notin defined THEN {"store-before-alloc"} ELSE {})
  \cup (IF ev.k = "return" /\ T.expect_n >= 0 /\ ~(ToSet(stored) = 0..(T.expect_n - 1) /\ Len(stored) = T.expect_n) THEN {"lengths-stored"} ELSE {})
  \cup (IF ev.k = "return" /\ T.expect_n >= 0 /\ ev.nret >= 0 /\ ev.nret # T.expect_n THEN {"lengths-returned"} ELSE {})
  \cup (IF ev.k = "return" /\ ~(\A i \in 1..Len(ev.rets) : ev.rets[i] = "_values_" \o ToString(i - 1)) THEN {"return-order"} ELSE {})
  \cup (IF ev.k = "other" THEN {"unknown-statement"} ELSE {})
  \cup (IF l = 1 /\ ~LayoutFromSortOk THEN {"layout-from-sort"} ELSE {})

RECURSIVE SetToSeqF(_)
SetToSeqF(S) == IF S = {} THEN <<>> ELSE LET x == CHOOSE x \in S : TRUE IN <<x>> \o SetToSeqF(S \ {x})

Step == /\ l <= Len(T.stmts)
        /\ LET ev == Ev
               f == RuleFails(ev) IN
           /\ fails' = fails \o [i \in 1..Cardinality(f) |-> [line |-> l, rule |-> SetToSeqF(f)[i]]]
           /\ defined' = defined \cup Binds(ev)
           /\ stored' = IF ev.k = "store" THEN Append(stored, ev.slot) ELSE stored
        /\ l' = l + 1 /\ tid' = tid
Next == Step
Spec == Init /\ [][Next]_vars

Finished == l > Len(T.stmts)
\* the rules as invariants of the trace specification (every observed state is checked)
NoFailure == fails = <<>>
Report == Finished => PrintT(ToJson([tid |-> tid, id |-> T.id, steps |-> l - 1, fails |-> fails]))
=============================================================================
