----------------------------- MODULE TraceEmit -----------------------------
(***************************************************************************)
(* Trace validation of EMITTED CODE (leg L3, code -> spec).                *)
(*                                                                         *)
(* One trace = the statement skeleton of one generated function, recorded  *)
(* from the real code generator (through the Emit hook or from the text    *)
(* of a generated module), together with the index maps in force.  The     *)
(* trace is consumed one statement per step; at every step the rules the   *)
(* properties impose on generated code are evaluated:                      *)
(*   use-before-def   a statement reads only formals, template locals or   *)
(*                    names written by an earlier statement     (C01, C12) *)
(*   unpack-slot      x = states[i] / parameters[i] / missing_variables[i] *)
(*                    uses the slot the index map gives x        (C04, C13)*)
(*   store-slot       slot i of the output receives the derivative (rhs,   *)
(*                    schemes: of the state that owns slot i; schemes also *)
(*                    read that state), the monitored name with monitor    *)
(*                    index i, or the requested missing value with slot i  *)
(*                    (C04, C05, C13).  The output is whatever the function*)
(*                    returns: one array written slot by slot, or a list   *)
(*                    of names - position i of the list is slot i, so the  *)
(*                    order of a functional (JAX) return is covered by the *)
(*                    same rule (C03)                                       *)
(*   store-twice      no slot is written twice                       (C04) *)
(*   redefinition     no model name, formal or linearisation is bound twice*)
(*                    (a model name rebound by a helper of the generated   *)
(*                    code is a capture: C19, C02)                         *)
(*   scheme-choice    a Rush-Larsen scheme uses the exponential update for  *)
(*                    exactly the requested stiff states whose rate depends *)
(*                    on themselves                                  (C07) *)
(*   scheme-guard     where the exponential update is used it is selected  *)
(*                    by |linearisation| > delta (the delta passed),        *)
(*                    strictly; otherwise the Euler update      (C06, C07) *)
(*   lengths          at return the written slots are exactly 0..n-1 and   *)
(*                    the declared number of returned entries is n   (C03) *)
(*                                                                         *)
(* Only what the properties fix is demanded.  How the generated code is    *)
(* SPELLED is left open: helper locals are followed (env: the closure of   *)
(* what a helper reads, which numbers and comparisons it contains, what it *)
(* calls), no name of a local of the generated code is assumed, and a      *)
(* function the skeleton cannot account for - a statement form it does not *)
(* know, a rate inlined into its store - is UNINTERPRETABLE: nothing is    *)
(* claimed about it (the numeric replay, leg L2, still decides), it is     *)
(* reported as a note.  `layout-from-sort` (the index maps are the ones    *)
(* the recorded sort of the complete graph determines) is such a note too: *)
(* it documents the layout policy of this implementation, which no         *)
(* property fixes.                                                         *)
(*                                                                         *)
(* A failing rule does not stop the trace: it is recorded and the rest of  *)
(* the trace is still checked.  The verdict is total: one JSON line per    *)
(* trace with the list of (line, rule) failures and notes.                 *)
(***************************************************************************)
EXTENDS Integers, Sequences, FiniteSets, TLC, Json, IOUtils

Traces == ndJsonDeserialize(IOEnv.TRACE_FILE)

VARIABLES tid, l, defined, stored, fails, notes, env
vars == <<tid, l, defined, stored, fails, notes, env>>

ToSet(s) == {s[i] : i \in 1..Len(s)}
T == Traces[tid]
Ev == T.stmts[l]
Has(f, k) == k \in DOMAIN f

NoEnv == [n \in {} |-> [uses |-> {}, consts |-> {}, ops |-> {}, calls |-> {}]]

Init == /\ tid \in 1..Len(Traces)
        /\ l = 1
        /\ defined = ToSet(Traces[tid].formals)
        /\ stored = <<>>
        /\ fails = <<>>
        /\ notes = <<>>
        /\ env = NoEnv

\* ---- names ------------------------------------------------------------------------------------
LinNames == {T.lin[k] : k \in DOMAIN T.lin}
ModelNames == DOMAIN T.state_index \cup DOMAIN T.parameter_index \cup DOMAIN T.missing_index
              \cup DOMAIN T.derivs \cup ToSet(T.assignments) \cup ToSet(T.full_order)
Protected == ModelNames \cup LinNames \cup ToSet(T.formals)
IsHelper(n) == n \notin Protected

\* ---- helpers of the generated code are followed ------------------------------------------------
ClU(S) == S \cup UNION {env[u].uses : u \in S \cap DOMAIN env}
ClC(S, C) == C \cup UNION {env[u].consts : u \in S \cap DOMAIN env}
ClO(S, O) == O \cup UNION {env[u].ops : u \in S \cap DOMAIN env}
ClF(S, F) == F \cup UNION {env[u].calls : u \in S \cap DOMAIN env}

HasFacts(ev) == ev.k \in {"def", "alloc", "store"}
UsesStar(ev) == ClU(ToSet(ev.uses))
CallsStar(ev) == ClF(ToSet(ev.uses), ToSet(ev.calls))

Binds(ev) == IF ev.k \in {"unpackS", "unpackP", "unpackM", "def", "alloc"} THEN {ev.name}
             ELSE IF ev.k = "store" /\ Has(ev, "name") THEN {ev.name} ELSE {}
Reads(ev) == IF ev.k \in {"def", "alloc", "store"} THEN ToSet(ev.uses)
             ELSE IF ev.k = "return" THEN ToSet(ev.uses) \cup ToSet(ev.rets) ELSE {}

\* ---- interpretability of the whole function -----------------------------------------------------
Whole(t) ==
     (IF \E i \in 1..Len(t.stmts) : t.stmts[i].k = "other" THEN {"statement-form"} ELSE {})
  \cup (IF \E i \in 1..Len(t.stmts) : t.stmts[i].k = "store" /\ t.stmts[i].slot < 0 THEN {"computed-slot"} ELSE {})
  \cup (IF \E i \in 1..Len(t.stmts) : t.stmts[i].k = "return" /\ ~t.stmts[i].rets_ok THEN {"returned-expression"} ELSE {})
  \cup (IF t.expect_n > 0 /\ ~\E i \in 1..Len(t.stmts) : t.stmts[i].k = "store" THEN {"no-store-seen"} ELSE {})
Interpretable == Whole(T) = {}

UnpackOk(ev) ==
  CASE ev.k = "unpackS" -> Has(T.state_index, ev.name) /\ T.state_index[ev.name] = ev.slot
    [] ev.k = "unpackP" -> Has(T.parameter_index, ev.name) /\ T.parameter_index[ev.name] = ev.slot
    [] ev.k = "unpackM" -> Has(T.missing_index, ev.name) /\ T.missing_index[ev.name] = ev.slot
    [] OTHER -> TRUE

\* ---- which quantity does a store carry? ---------------------------------------------------------
\* rhs / scheme: the derivative names the stored expression reads (helpers followed); a verdict needs exactly one
DerivsOf(ev) == UsesStar(ev) \cap DOMAIN T.derivs
Carried(ev) == CHOOSE d \in DerivsOf(ev) : TRUE
StoreJudged(ev) ==
  CASE T.kind \in {"rhs", "scheme"} -> Cardinality(DerivsOf(ev)) = 1
    [] T.kind = "monitor" -> DOMAIN T.monitor_index # {} /\ Cardinality(UsesStar(ev)) = 1
    [] T.kind = "missing" -> Cardinality(UsesStar(ev)) = 1
    [] OTHER -> FALSE
StoreOk(ev) ==
  CASE T.kind = "rhs" ->
         LET d == Carried(ev) IN Has(T.state_index, T.derivs[d]) /\ T.state_index[T.derivs[d]] = ev.slot
    [] T.kind = "scheme" ->
         LET d == Carried(ev) IN /\ Has(T.state_index, T.derivs[d]) /\ T.state_index[T.derivs[d]] = ev.slot
                                 /\ T.derivs[d] \in UsesStar(ev)
    [] T.kind = "monitor" ->
         \E n \in UsesStar(ev) : Has(T.monitor_index, n) /\ T.monitor_index[n] = ev.slot
    [] T.kind = "missing" ->
         \E n \in UsesStar(ev) : Has(T.requested, n) /\ T.requested[n] = ev.slot
    [] OTHER -> TRUE

\* layout policy of this implementation (a NOTE, no property fixes it): state slots = order of the derivatives in
\* the sort of the COMPLETE assignment graph recorded in the same process, monitor slots = that order
DerivsInOrder == SelectSeq(T.full_order, LAMBDA n : Has(T.derivs, n))
LayoutFromSortOk ==
  \/ T.full_order = <<>>
  \/ /\ \A i \in 1..Len(DerivsInOrder) : Has(T.state_index, T.derivs[DerivsInOrder[i]]) /\ T.state_index[T.derivs[DerivsInOrder[i]]] = i - 1
     /\ Len(DerivsInOrder) = Cardinality(DOMAIN T.state_index)
     /\ (DOMAIN T.monitor_index = {} \/ \A i \in 1..Len(T.full_order) : Has(T.monitor_index, T.full_order[i]) /\ T.monitor_index[T.full_order[i]] = i - 1)

\* ---- C07: which update does the store of state X use? -------------------------------------------
\* The exponential update is recognised by what it IS (an exponential of the step, reached through the store and
\* the helpers it reads - the rate and the other model quantities are model names and are not followed), not by a name.
SchemeJudged(ev) == T.kind = "scheme" /\ T.check_choice /\ Cardinality(DerivsOf(ev)) = 1
                    /\ Has(T.state_index, T.derivs[Carried(ev)]) /\ T.state_index[T.derivs[Carried(ev)]] = ev.slot
WantRL(ev) == LET x == T.derivs[Carried(ev)] IN (T.all_stiff \/ x \in ToSet(T.stiff)) /\ x \notin ToSet(T.zero_slope)
UsesRL(ev) == CallsStar(ev) \cap {"exp", "expm1"} # {} \/ UsesStar(ev) \cap LinNames # {}
SchemeChoiceOk(ev) == ~SchemeJudged(ev) \/ (WantRL(ev) = UsesRL(ev))

\* ---- C06: the guard ------------------------------------------------------------------------------
\* Where the exponential update is used: there is a selection at all; and when the selection is the outermost one
\* of the store and reads the linearisation by its name, it reads no other quantity of the model or of the call,
\* every number in it is the delta the caller passed, and |g| = delta takes the Euler branch:
\*    strict comparison(s)     -> the selected branch is the exponential one, the other one the rate
\*    non-strict comparison(s) -> the other way round
\* Any other spelling (negations, mixed comparisons, a selection inside a helper) is a note.
GuardVerdict(ev) ==
  IF ~(SchemeJudged(ev) /\ T.delta # "" /\ WantRL(ev) /\ UsesRL(ev)) THEN "ok"
  ELSE LET d == Carried(ev)
           g == ev.guard
           lin == T.lin[d]
       IN IF "where" \notin CallsStar(ev) THEN "fail"      \* unguarded exponential update
          ELSE IF ~g.present \/ lin \notin ClU(ToSet(g.cond_uses)) THEN "note"
          ELSE LET cu == ClU(ToSet(g.cond_uses))
                   cc == ClC(ToSet(g.cond_uses), ToSet(g.consts))
                   co == ClO(ToSet(g.cond_uses), ToSet(g.ops))
                   tu == ClU(ToSet(g.then_uses))
                   eu == ClU(ToSet(g.else_uses))
                   strictForm == co # {} /\ co \subseteq {"Gt", "Lt"}
                   looseForm == co # {} /\ co \subseteq {"GtE", "LtE"}
               IN IF ~(strictForm \/ looseForm) THEN "note"
                  ELSE IF /\ cu \cap (Protected \cup {"dt", "t"}) = {lin}
                          /\ cc \subseteq {T.delta}
                          /\ (strictForm => (lin \in tu /\ d \in eu /\ lin \notin eu))
                          /\ (looseForm => (lin \in eu /\ d \in tu /\ lin \notin tu))
                       THEN "ok" ELSE "fail"

AllocSeen == \E i \in 1..(l - 1) : T.stmts[i].k = "alloc" /\ T.stmts[i].name # "shape"

RuleFails(ev) ==
     (IF ~(Reads(ev) \subseteq defined) THEN {"use-before-def"} ELSE {})
  \cup (IF ~UnpackOk(ev) THEN {"unpack-slot"} ELSE {})
  \cup (IF Binds(ev) \cap defined \cap Protected # {} THEN {"redefinition"} ELSE {})
  \cup (IF ev.k = "store" /\ StoreJudged(ev) /\ ~StoreOk(ev) THEN {"store-slot"} ELSE {})
  \cup (IF ev.k = "store" /\ ev.slot \in ToSet(stored) THEN {"store-twice"} ELSE {})
  \cup (IF ev.k = "store" /\ ~SchemeChoiceOk(ev) THEN {"scheme-choice"} ELSE {})
  \cup (IF ev.k = "store" /\ SchemeChoiceOk(ev) /\ GuardVerdict(ev) = "fail" THEN {"scheme-guard"} ELSE {})
  \cup (IF ev.k = "store" /\ T.needs_alloc /\ ~Has(ev, "name") /\ ~AllocSeen THEN {"store-before-alloc"} ELSE {})
  \cup (IF ev.k = "return" /\ T.expect_n >= 0 /\ ~(ToSet(stored) = 0..(T.expect_n - 1) /\ Len(stored) = T.expect_n) THEN {"lengths-stored"} ELSE {})
  \cup (IF ev.k = "return" /\ T.expect_n >= 0 /\ ev.nret >= 0 /\ ev.nret # T.expect_n THEN {"lengths-returned"} ELSE {})

RuleNotes(ev) ==
     (IF ev.k = "store" /\ ~StoreJudged(ev) THEN {"store-not-judged"} ELSE {})
  \cup (IF ev.k = "store" /\ SchemeChoiceOk(ev) /\ GuardVerdict(ev) = "note" THEN {"guard-spelling"} ELSE {})
  \cup (IF l = 1 /\ ~LayoutFromSortOk THEN {"layout-from-sort"} ELSE {})

RECURSIVE SetToSeqF(_)
SetToSeqF(S) == IF S = {} THEN <<>> ELSE LET x == CHOOSE x \in S : TRUE IN <<x>> \o SetToSeqF(S \ {x})
Tagged(S, line) == LET s == SetToSeqF(S) IN [i \in 1..Len(s) |-> [line |-> line, rule |-> s[i]]]

Step == /\ l <= Len(T.stmts)
        /\ LET ev == Ev IN
           /\ fails' = fails \o Tagged(RuleFails(ev), l)
           /\ notes' = notes \o Tagged(RuleNotes(ev), l)
           /\ defined' = defined \cup Binds(ev)
           /\ stored' = IF ev.k = "store" THEN Append(stored, ev.slot) ELSE stored
           /\ env' = IF ev.k \in {"def", "alloc"} /\ IsHelper(ev.name)
                     THEN (ev.name :> [uses |-> UsesStar(ev), consts |-> ClC(ToSet(ev.uses), ToSet(ev.consts)),
                                       ops |-> ClO(ToSet(ev.uses), ToSet(ev.ops)), calls |-> CallsStar(ev)]) @@ env
                     ELSE env
        /\ l' = l + 1 /\ tid' = tid
Next == Step
Spec == Init /\ [][Next]_vars

Finished == l > Len(T.stmts)
\* the rules as an invariant of the trace specification (every observed state is checked)
NoFailure == Interpretable => fails = <<>>
Report == Finished => PrintT(ToJson([tid |-> tid, id |-> T.id, steps |-> l - 1, interpretable |-> Interpretable,
                                     why |-> SetToSeqF(Whole(T)), fails |-> fails, notes |-> notes]))
=============================================================================
