------------------------------ MODULE OdeText ------------------------------
(***************************************************************************)
(* The expression grammar of ode.lark as a recursive-descent parser, one   *)
(* operator per grammar rule:                                              *)
(*   expression: term (("+"|"-") term)*          left associative          *)
(*   term:       factor (("*"|"/") factor)*      left associative          *)
(*   factor:     ("+"|"-") factor | power                                  *)
(*   power:      signedatom ("**" factor)?       right associative,        *)
(*                                               binds tighter than unary  *)
(*   atom:       number | variable | pi | "(" expression ")" | call        *)
(*   call:       funcname "(" expression ("," expression)* (",")* ")"      *)
(* Parse(tokens) returns [ok |-> TRUE, ast |-> ...] or Fail.  Arity and    *)
(* the shape of ContinuousConditional are checked as build_expression and  *)
(* sympy do (a wrong arity is a rejected text).                            *)
(***************************************************************************)
EXTENDS OdeExpr

CONSTANTS NumLex,     \* function: number token -> <<n, d>>  (the lexicon of literals in use)
          BigToks     \* number tokens whose value does not fit the bounded rationals (1e22, 1e-21, ...)

Punct    == {"+","-","*","/","**","(",")",",","~"}
LogicNames == {"Conditional","ContinuousConditional","Lt","Gt","Le","Ge","Eq","Not","And","Or"}
Keywords == FnNames \cup LogicNames \cup {"Mod","pi"}
IsNumTok(t) == t \in DOMAIN NumLex \/ t \in BigToks
IsIdent(t)  == t \notin Punct /\ t \notin Keywords /\ ~IsNumTok(t)
NumOf(t)    == IF t \in BigToks THEN Big(t) ELSE Num(NumLex[t][1], NumLex[t][2], t)

Fail == [ok |-> FALSE]
Ok(a, r) == [ok |-> TRUE, ast |-> a, rest |-> r]
HeadIs(s, t) == s # <<>> /\ Head(s) = t

RECURSIVE PExpr(_), PTerm(_), PFactor(_), PPower(_), PAtom(_), ExprTail(_,_), TermTail(_,_), PArgs(_,_)

\* arguments after "(" : expression ("," expression)* then `maxTrail` or fewer extra commas, then ")"
\* returns [ok, args, rest]
PArgs(s, acc) ==
  LET r == PExpr(s) IN
  IF ~r.ok THEN Fail
  ELSE LET acc2 == Append(acc, r.ast) IN
       IF HeadIs(r.rest, ")") THEN [ok |-> TRUE, args |-> acc2, rest |-> Tail(r.rest), trail |-> 0]
       ELSE IF HeadIs(r.rest, ",") THEN
            LET RECURSIVE Commas(_,_)
                Commas(q, n) == IF HeadIs(q, ",") THEN Commas(Tail(q), n+1) ELSE <<q, n>>
                c == Commas(r.rest, 0)
            IN IF HeadIs(c[1], ")") THEN [ok |-> TRUE, args |-> acc2, rest |-> Tail(c[1]), trail |-> c[2]]
               ELSE IF c[2] = 1 THEN PArgs(c[1], acc2)
               ELSE Fail
       ELSE Fail

BuildFn(f, args) ==
  IF f = "Mod" THEN (IF Len(args) = 2 THEN Mod(args[1], args[2]) ELSE Fail)
  ELSE IF Len(args) = 1 THEN Fn(f, args[1]) ELSE Fail
BuildLogic(f, args) ==
  CASE f \in RelOps -> IF Len(args) = 2 THEN Rel(f, args[1], args[2]) ELSE Fail
    [] f = "Not" -> IF Len(args) = 1 THEN Not(args[1]) ELSE Fail
    [] f = "And" -> IF Len(args) >= 2 THEN And(args) ELSE Fail
    [] f = "Or"  -> IF Len(args) >= 2 THEN Or(args) ELSE Fail
    [] f = "Conditional" -> IF Len(args) = 3 THEN Cond(args[1], args[2], args[3]) ELSE Fail
    [] f = "ContinuousConditional" ->
         IF Len(args) = 4 /\ args[1].op = "rel" /\ args[1].r # "Eq"
         THEN CCond(args[1].r, args[1].a, args[1].b, args[2], args[3], args[4]) ELSE Fail

PAtom(s) ==
  IF s = <<>> THEN Fail
  ELSE LET h == Head(s) IN
  IF IsNumTok(h) THEN Ok(NumOf(h), Tail(s))
  ELSE IF h = "pi" THEN Ok(Pi, Tail(s))
  ELSE IF h = "(" THEN
       LET r == PExpr(Tail(s)) IN
       IF r.ok /\ HeadIs(r.rest, ")") THEN Ok(r.ast, Tail(r.rest)) ELSE Fail
  ELSE IF h \in FnNames \cup {"Mod"} \cup LogicNames THEN
       IF ~HeadIs(Tail(s), "(") THEN Fail ELSE
       LET a == PArgs(Tail(Tail(s)), <<>>) IN
       IF ~a.ok THEN Fail
       ELSE IF h \in LogicNames /\ a.trail > 1 THEN Fail     \* logicalfunc: (",")?   func: (",")*
       ELSE LET n == IF h \in LogicNames THEN BuildLogic(h, a.args) ELSE BuildFn(h, a.args) IN
            IF n = Fail THEN Fail ELSE Ok(n, a.rest)
  ELSE IF IsIdent(h) THEN Ok(Var(h), Tail(s))
  ELSE Fail
PPower(s) == LET a == PAtom(s) IN
             IF ~a.ok THEN Fail
             ELSE IF HeadIs(a.rest, "**") THEN
                  LET f == PFactor(Tail(a.rest)) IN
                  IF f.ok THEN Ok(Bn("pow", a.ast, f.ast), f.rest) ELSE Fail
             ELSE a
PFactor(s) == IF s # <<>> /\ Head(s) \in {"+","-"} THEN
                 LET f == PFactor(Tail(s)) IN
                 IF f.ok THEN Ok(IF Head(s) = "-" THEN Neg(f.ast) ELSE Pos(f.ast), f.rest) ELSE Fail
              ELSE PPower(s)
TermTail(acc, s) == IF s # <<>> /\ Head(s) \in {"*","/"} THEN
                       LET f == PFactor(Tail(s)) IN
                       IF f.ok THEN TermTail(Bn(IF Head(s) = "*" THEN "mul" ELSE "div", acc, f.ast), f.rest) ELSE Fail
                    ELSE Ok(acc, s)
PTerm(s) == LET f == PFactor(s) IN IF f.ok THEN TermTail(f.ast, f.rest) ELSE Fail
ExprTail(acc, s) == IF s # <<>> /\ Head(s) \in {"+","-"} THEN
                       LET t == PTerm(Tail(s)) IN
                       IF t.ok THEN ExprTail(Bn(IF Head(s) = "+" THEN "add" ELSE "sub", acc, t.ast), t.rest) ELSE Fail
                    ELSE Ok(acc, s)
PExpr(s) == LET t == PTerm(s) IN IF t.ok THEN ExprTail(t.ast, t.rest) ELSE Fail
Parse(s) == LET r == PExpr(s) IN IF r.ok /\ r.rest = <<>> THEN r ELSE Fail

\* ---------------------------------------------------------------------------
\* typing: numeric vs boolean.  (The code also lets a relation stand as an operand of a binary
\* arithmetic operator - expressions.relational_to_piecewise - but the documented language does
\* not, so the generators never produce it and no property is judged on it.)
RECURSIVE WTNum(_), WTBool(_)
NumOrRel(e) == WTNum(e)
WTNum(e) ==
  CASE e.op \in {"num","big","pi","var"} -> TRUE
    [] e.op \in {"neg","pos","fn","sign"} -> WTNum(e.a)
    [] e.op \in BinOps -> NumOrRel(e.a) /\ NumOrRel(e.b)
    [] e.op = "mod" -> WTNum(e.a) /\ WTNum(e.b)
    [] e.op = "cond" -> WTBool(e.c) /\ WTNum(e.a) /\ WTNum(e.b)
    [] e.op = "ccond" -> WTNum(e.l) /\ WTNum(e.rr) /\ WTNum(e.a) /\ WTNum(e.b) /\ WTNum(e.s)
    [] OTHER -> FALSE
WTBool(e) ==
  CASE e.op = "rel" -> WTNum(e.a) /\ WTNum(e.b)
    [] e.op = "not" -> WTBool(e.a)
    [] e.op \in {"and","or"} -> \A i \in 1..Len(e.args) : WTBool(e.args[i])
    [] OTHER -> FALSE
=============================================================================
