--------------------------------- MODULE Cli ---------------------------------
(***************************************************************************)
(* C18: the command line writes what the API generates and honours its     *)
(* options.  One invocation of  gotranx ode2py | ode2c | convert  as a     *)
(* small state machine                                                     *)
(*   ParseArgs -> ReadConfig (config file values override the flags, as    *)
(*   docs/config.md says) -> Validate -> LoadModel -> Generate -> Write    *)
(* with the observable outcome: exit status, the set of files written, and *)
(* the options the API is called with (the written text must be            *)
(* get_code(model, effective options)).                                    *)
(***************************************************************************)
EXTENDS Integers, Sequences, FiniteSets, TLC, Json

Cmds == {"ode2py", "ode2c", "convert"}
Schemes == {<<>>, <<"explicit_euler">>, <<"generalized_rush_larsen", "hybrid_rush_larsen">>}
Models == {"valid", "syntax-error", "ill-formed", "missing-file"}
NoneV == "-"
NoneS == <<"-">>      \* "absent" for list-valued fields

\* flags given on the command line ("-" = flag absent: the documented default applies)
FlagSpace == [scheme : Schemes, stiff : {<<>>, <<"x">>}, delta : {NoneV, "0.25"}, remove_unused : BOOLEAN,
              format : {NoneV, "none"}, backend : {NoneV, "jax"}, outname : {NoneV, "out"}, to : {NoneV, ".c", ".py", "py", "python", "c"},
              jax : BOOLEAN]
\* configuration file: "-" = no file; otherwise the fields it sets
ConfigSpace == {[present |-> FALSE]} \cup
  {[present |-> TRUE, scheme |-> sc, delta |-> dl, pyformat |-> pf, pybackend |-> pb, cformat |-> cf, cto |-> ct, stiff |-> st] :
      \* set-but-empty / set-to-zero values are values too: an empty scheme list, delta = 0, an empty stiff list
      sc \in {NoneS, <<"explicit_euler">>, <<"bogus_scheme">>, <<>>}, dl \in {NoneV, "1", "0"}, pf \in {NoneV, "none"},
      pb \in {NoneV, "jax"}, cf \in {NoneV, "none"}, ct \in {NoneV, ".c"}, st \in {NoneS, <<"y">>, <<>>}}

\* project: the directory the command runs in is a project root whose pyproject.toml has a [tool.gotranx] table.
\* docs/config.md: that file is the configuration - unless --config names another file, which then is (alone)
ProjCfg == [present |-> TRUE, scheme |-> <<"generalized_rush_larsen">>, delta |-> "0.5", pyformat |-> NoneV, pybackend |-> NoneV,
            cformat |-> NoneV, cto |-> ".c", stiff |-> <<"y">>]
VARIABLES pc, cmd, flags, config, project, model, eff, files, exit
vars == <<pc, cmd, flags, config, project, model, eff, files, exit>>

Relevant(c, f) ==   \* flags a command does not have are left at "-"
  /\ (c # "ode2py" => f.backend = NoneV)
  /\ (c = "ode2py" => f.to = NoneV)
  /\ (c = "ode2c" => f.to \in {NoneV, ".c"})
  /\ (c # "convert" => ~f.jax)
  /\ (c = "convert" => f.format = NoneV /\ f.to # NoneV)
Init == /\ pc = "args" /\ cmd \in Cmds /\ flags \in {f \in FlagSpace : TRUE} /\ Relevant(cmd, flags)
        /\ config \in ConfigSpace /\ (cmd = "convert" => ~config.present)
        /\ project \in BOOLEAN /\ (cmd = "convert" => ~project)
        /\ model \in Models /\ eff = [none |-> TRUE] /\ files = {} /\ exit = -1

Default(c, o) == CASE o = "delta" -> "1e-8" [] o = "format" -> (IF c = "ode2c" THEN "clang-format" ELSE "black")
                   [] o = "backend" -> "numpy" [] o = "to" -> (IF c = "ode2c" THEN ".h" ELSE ".py")
FlagOr(c, o, v) == IF v = NoneV THEN Default(c, o) ELSE v
EffCfg == IF config.present THEN config ELSE IF project THEN ProjCfg ELSE [present |-> FALSE]
Cfg(field, fallback) == IF EffCfg.present /\ EffCfg[field] # NoneV THEN EffCfg[field] ELSE fallback
CfgS(field, fallback) == IF EffCfg.present /\ EffCfg[field] # NoneS THEN EffCfg[field] ELSE fallback
IsC == cmd = "ode2c" \/ (cmd = "convert" /\ flags.to \in {".c", "c"})
IsPy == cmd = "ode2py" \/ (cmd = "convert" /\ flags.to \in {".py", "py", "python"})

\* ReadConfig: the documented rule - a value in the configuration file overrides the flag
ReadConfig ==
  /\ pc = "args"
  /\ eff' = [scheme |-> CfgS("scheme", flags.scheme), stiff |-> CfgS("stiff", flags.stiff),
             delta |-> Cfg("delta", FlagOr(cmd, "delta", flags.delta)), remove_unused |-> flags.remove_unused,
             format |-> IF IsC THEN Cfg("cformat", FlagOr("ode2c", "format", flags.format)) ELSE Cfg("pyformat", FlagOr("ode2py", "format", flags.format)),
             backend |-> IF cmd = "convert" THEN (IF flags.jax THEN "jax" ELSE "numpy") ELSE Cfg("pybackend", FlagOr(cmd, "backend", flags.backend)),
             suffix |-> IF IsC THEN Cfg("cto", IF cmd = "convert" THEN ".c" ELSE FlagOr("ode2c", "to", flags.to)) ELSE ".py",
             stem |-> IF flags.outname = NoneV THEN "model" ELSE flags.outname]
  /\ pc' = "validate" /\ UNCHANGED <<cmd, flags, config, project, model, files, exit>>
\* Validate: an unknown scheme name is refused before anything is read
Validate ==
  /\ pc = "validate"
  /\ IF \E i \in 1..Len(eff.scheme) : eff.scheme[i] = "bogus_scheme"
     THEN pc' = "done" /\ exit' = 1 ELSE pc' = "load" /\ exit' = exit
  /\ UNCHANGED <<cmd, flags, config, project, model, eff, files>>
LoadModel ==
  /\ pc = "load"
  /\ IF model = "valid" THEN pc' = "generate" /\ exit' = exit ELSE pc' = "done" /\ exit' = 1
  /\ UNCHANGED <<cmd, flags, config, project, model, eff, files>>
\* Generate may fail (formatter unavailable): then nothing is written
CONSTANT FormatterAvailable     \* set of formatter names that work in this environment
Generate ==
  /\ pc = "generate"
  /\ IF eff.format \in FormatterAvailable THEN pc' = "write" /\ exit' = exit ELSE pc' = "done" /\ exit' = 1
  /\ UNCHANGED <<cmd, flags, config, project, model, eff, files>>
Write ==
  /\ pc = "write" /\ files' = files \cup {eff.stem \o eff.suffix} /\ pc' = "done" /\ exit' = 0
  /\ UNCHANGED <<cmd, flags, config, project, model, eff>>
Next == ReadConfig \/ Validate \/ LoadModel \/ Generate \/ Write
Spec == Init /\ [][Next]_vars
Done == pc = "done"

C18_WriteOnlyAfterSuccess == [][files' # files => (pc = "write" /\ model = "valid")]_vars
C18_InvalidExitsNonZero == Done /\ model # "valid" => (exit # 0 /\ files = {})
C18_ExitZeroIffWritten == Done => ((exit = 0) <=> (files # {}))
C18_EffectiveOptions == pc \in {"validate", "load", "generate", "write", "done"} =>
     /\ (config.present /\ config.delta # NoneV => eff.delta = config.delta)
     /\ (~config.present /\ project => eff.delta = ProjCfg.delta)
     /\ (~config.present /\ ~project => eff.delta = FlagOr(cmd, "delta", flags.delta))
     /\ eff.remove_unused = flags.remove_unused

Emit == Done => PrintT(ToJson([cmd |-> cmd, flags |-> flags, config |-> config, project |-> project, model |-> model, eff |-> eff,
                               files |-> files, exit_zero |-> (exit = 0)]))
Hash == Len(ToString(flags)) + 3 * Len(ToString(config)) + 7 * Len(cmd) + Len(model) + (IF project THEN 1 ELSE 0)
CONSTANT EmitMod
EmitSome == (Done /\ Hash % (IF cmd = "convert" THEN 3 ELSE EmitMod) = 0) => Emit
=============================================================================
