------------------------------ MODULE Session ------------------------------
(***************************************************************************)
(* The model-checked instance of SessionCore.tla (state, actions and the   *)
(* invariant C09_HistoryIndependent are defined there; SessionProof.tla    *)
(* proves the invariant for histories of ANY length with TLAPS) plus the   *)
(* emission of histories for the replay.                                   *)
(***************************************************************************)
EXTENDS SessionCore, TLC, Json

\* histories for the replay: every history that ends in an observable call
EmitHist == (Len(hist) = MaxCalls /\ hist[Len(hist)].call # "get_scheme") => PrintT(ToJson([hist |-> hist, expect |-> Expected(hist[Len(hist)])]))
=============================================================================
