----------------------------- MODULE TraceSort -----------------------------
(***************************************************************************)
(* Trace validation of sort_assignments (leg L3): the recorded calls       *)
(*   SortAdd(name, predecessors in the order received) ... SortOrder(order)*)
(* are replayed, one add per step, into the Graphlib specification.        *)
(* Rules evaluated on the result:                                          *)
(*   topological   every assignment comes after all its dependencies that  *)
(*                 are assignments themselves                (C01, C12)    *)
(*   complete      the order contains every added assignment exactly once  *)
(*   refines       the order is the one the specification of graphlib      *)
(*                 computes from the same adds (binds Graphlib.tla to the   *)
(*                 interpreter's graphlib: a conformance note, not a        *)
(*                 property of gotranx)                                     *)
(***************************************************************************)
EXTENDS Graphlib, TLC, Json, IOUtils

Traces == ndJsonDeserialize(IOEnv.TRACE_FILE)
VARIABLES tid, l, g
vars == <<tid, l, g>>
T == Traces[tid]
AddedNames(t) == {t.adds[i].name : i \in 1..Len(t.adds)}
AllNames(t) == AddedNames(t) \cup UNION {SeqSet(t.adds[i].iter) : i \in 1..Len(t.adds)}

Init == tid \in 1..Len(Traces) /\ l = 1 /\ g = GEmpty(AllNames(Traces[tid]))
Step == /\ l <= Len(T.adds)
        /\ g' = GAdd(g, T.adds[l].name, T.adds[l].iter)
        /\ l' = l + 1 /\ tid' = tid
Next == Step
Spec == Init /\ [][Next]_vars
Finished == l > Len(T.adds)

PosIn(s, x) == CHOOSE i \in 1..Len(s) : s[i] = x
Topological == \A i \in 1..Len(T.adds) : \A p \in SeqSet(T.adds[i].iter) :
                  (InSeq(T.order, p) /\ InSeq(T.order, T.adds[i].name) /\ p # T.adds[i].name)
                      => PosIn(T.order, p) < PosIn(T.order, T.adds[i].name)
Complete == /\ AddedNames(T) \subseteq SeqSet(T.order)
            /\ \A i, j \in 1..Len(T.order) : i # j => T.order[i] # T.order[j]
            /\ (T.assignments_only => SeqSet(T.order) = AddedNames(T))
Refines == LET o == GStaticOrder(g) IN
           T.order = (IF T.assignments_only THEN SelectSeq(o, LAMBDA n : n \in AddedNames(T)) ELSE o)
Fails == (IF ~Topological THEN <<"topological">> ELSE <<>>) \o (IF ~Complete THEN <<"complete">> ELSE <<>>)
         \o (IF ~Refines THEN <<"refines">> ELSE <<>>)
Report == Finished => PrintT(ToJson([tid |-> tid, id |-> T.id, steps |-> l - 1, fails |-> Fails]))
=============================================================================
