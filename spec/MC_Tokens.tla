----------------------------- MODULE MC_Tokens -----------------------------
(***************************************************************************)
(* Every token string up to MaxLen over a small alphabet: the grammar of   *)
(* the specification decides accept / reject and, for accepted strings,    *)
(* the tree and its value.  The real loader must accept exactly the same   *)
(* strings and compute the same values: this is where precedence and       *)
(* associativity of + - * / ** and unary signs are decided exhaustively.   *)
(***************************************************************************)
EXTENDS OdeText, Json
CONSTANTS MaxLen, Alpha

NumLexDef == ("2" :> <<2,1>>) @@ ("0.5" :> <<1,2>>) @@ ("3" :> <<3,1>>)
AlphaBase == <<"x", "y", "2", "0.5", "+", "-", "*", "/", "**", "(", ")">>
AlphaCall == <<"x", "2", "+", "-", "*", "**", "(", ")", ",", "exp", "Mod", "Lt", "Conditional">>
Alphabet == IF Alpha = 1 THEN AlphaBase ELSE AlphaCall
Envs == << [x |-> Q(3,2), y |-> Q(-1,4), t |-> Q(0,1)], [x |-> Q(-2,1), y |-> Q(1,2), t |-> Q(1,1)] >>

VARIABLES s
Init == s = <<>>
Next == Len(s) < MaxLen /\ \E i \in 1..Len(Alphabet) : s' = Append(s, Alphabet[i])
Spec == Init /\ [][Next]_s

P == Parse(s)
Accepted == P.ok /\ (WTNum(P.ast) \/ WTBool(P.ast))
\* accepted strings are exactly the renderings of their own tree with some redundant parentheses:
\* printing the tree minimally and parsing again gives the same tree
RoundTrip == P.ok => Parse(Render(P.ast, "min")).ast = P.ast
MinimalNotLonger == P.ok => Len(Render(P.ast, "min")) <= Len(s)
Emit == s # <<>> => PrintT(ToJson(
          IF Accepted THEN [toks |-> s, ok |-> TRUE, bool |-> IsBoolNode(P.ast),
                            vals |-> [p \in 1..Len(Envs) |-> Eval(P.ast, Envs[p], FALSE)]]
          ELSE [toks |-> s, ok |-> FALSE, parsed |-> P.ok]))
EmitHeader == s = <<>> => PrintT(ToJson([header |-> TRUE, envs |-> Envs]))
=============================================================================
