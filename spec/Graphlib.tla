------------------------------ MODULE Graphlib ------------------------------
(***************************************************************************)
(* graphlib.TopologicalSorter as used by gotranx.ode.sort_assignments:     *)
(*   for a in assignments (in the order given):  sorter.add(a, *deps(a))   *)
(*   static_order() = rounds of get_ready()/done()                         *)
(* transcribed statement by statement (CPython 3.12 Lib/graphlib.py).      *)
(* `sched[a]` is the ORDER in which the dependency collection of a is      *)
(* iterated: for a frozenset that order is the hidden schedule of C09.     *)
(*                                                                         *)
(* State of the sorter: nodes (insertion order of _node2info), succ[n]     *)
(* (successor lists in append order), npred[n].                            *)
(***************************************************************************)
EXTENDS Integers, Sequences, FiniteSets

InSeq(s, x) == \E i \in 1..Len(s) : s[i] = x
SeqSet(s) == {s[i] : i \in 1..Len(s)}

\* one sorter.add(a, *ps): g = [nodes, succ, npred]
GAdd(g, a, ps) ==
  LET n1  == IF InSeq(g.nodes, a) THEN g.nodes ELSE Append(g.nodes, a)
      np1 == [g.npred EXCEPT ![a] = @ + Len(ps)]
      RECURSIVE AddP(_,_,_)
      AddP(q, nn, ss) == IF q = <<>> THEN <<nn, ss>> ELSE
           AddP(Tail(q), IF InSeq(nn, Head(q)) THEN nn ELSE Append(nn, Head(q)),
                [ss EXCEPT ![Head(q)] = Append(@, a)])
      r == AddP(ps, n1, g.succ)
  IN [nodes |-> r[1], succ |-> r[2], npred |-> np1]

GEmpty(allNames) == [nodes |-> <<>>, succ |-> [n \in allNames |-> <<>>], npred |-> [n \in allNames |-> 0]]

RECURSIVE GAddAll(_,_,_)
GAddAll(g, todo, sched) ==
  IF todo = <<>> THEN g ELSE GAddAll(GAdd(g, Head(todo), sched[Head(todo)]), Tail(todo), sched)

\* prepare(): ready = nodes without predecessors, in insertion order
GReady(g) == SelectSeq(g.nodes, LAMBDA n : g.npred[n] = 0)

\* done(*group): decrement successors in order, appending the ones that become ready
GDone(group, succ, npred) ==
  LET RECURSIVE DoneAll(_,_,_)
      DoneAll(grp, np, rd) ==
        IF grp = <<>> THEN <<np, rd>> ELSE
        LET RECURSIVE Dec(_,_,_)
            Dec(ss, np2, rd2) == IF ss = <<>> THEN <<np2, rd2>> ELSE
               LET s == Head(ss) np3 == [np2 EXCEPT ![s] = @ - 1]
               IN Dec(Tail(ss), np3, IF np3[s] = 0 THEN Append(rd2, s) ELSE rd2)
            r == Dec(succ[Head(grp)], np, rd)
        IN DoneAll(Tail(grp), r[1], r[2])
  IN DoneAll(group, npred, <<>>)

RECURSIVE GRounds(_,_,_,_)
GRounds(ready, succ, npred, out) ==
  IF ready = <<>> THEN out ELSE
  LET r == GDone(ready, succ, npred) IN GRounds(r[2], succ, r[1], out \o ready)

\* static_order(): the complete order, or a shorter sequence when the graph has a cycle
\* (graphlib raises CycleError in prepare(); the nodes on or behind a cycle never become ready)
GStaticOrder(g) == GRounds(GReady(g), g.succ, g.npred, <<>>)
GHasCycle(g)    == Len(GStaticOrder(g)) < Len(g.nodes)

StaticOrderOf(allNames, addOrder, sched) == GStaticOrder(GAddAll(GEmpty(allNames), addOrder, sched))
=============================================================================
