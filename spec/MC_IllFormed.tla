---------------------------- MODULE MC_IllFormed ----------------------------
(***************************************************************************)
(* C08: from every (sampled) well-formed structural model, ONE fault at    *)
(* ONE site: duplicate definitions (same / different right-hand side,      *)
(* same / different dependencies, same / other component), kind clashes,   *)
(* missing / orphan / misplaced derivatives, undefined symbols, cycles.    *)
(* WellFormed (written from the property) decides what must be rejected;   *)
(* TLC checks that the staged loader of Pipeline.tla (LoadOutcome, then    *)
(* SortOutcome at generation time) rejects exactly those, and emits the    *)
(* faulted text with the verdict for the replay in the real loader.        *)
(***************************************************************************)
EXTENDS MC_Struct

CONSTANTS BaseMod,     \* faults are applied to one base model out of BaseMod
          FaultEmitMod \* emit one faulted text out of FaultEmitMod

VARIABLES fault, fblocks, fmi
fvars == <<vars, fault, fblocks, fmi>>

ExprBlockIdx(bs, c) == {b \in 1..Len(bs) : bs[b].k = "expressions" /\ bs[b].comp = c}
DeclBlockIdx(bs, k, c) == {b \in 1..Len(bs) : bs[b].k = k /\ bs[b].comp = c}
AppendTo(bs, b, entry) == [bs EXCEPT ![b].entries = Append(@, entry)]
AddEntry(bs, k, c, entry) ==
  LET idx == {b \in 1..Len(bs) : bs[b].k = k /\ bs[b].comp = c} IN
  IF idx = {} THEN Append(bs, [k |-> k, comp |-> c, entries |-> <<entry>>])
  ELSE AppendTo(bs, CHOOSE b \in idx : TRUE, entry)
RemoveName(bs, n) == [b \in 1..Len(bs) |-> [bs[b] EXCEPT !.entries = SelectSeq(@, LAMBDA en : en.name # n)]]
NonEmpty(bs) == SelectSeq(bs, LAMBDA b : b.entries # <<>>)
ReplaceExpr(bs, n, e) == [b \in 1..Len(bs) |-> [bs[b] EXCEPT !.entries = [j \in 1..Len(@) |-> IF @[j].name = n THEN [@[j] EXCEPT !.e = e] ELSE @[j]]]]
ReplaceVarIn(bs, n, old, new) == [b \in 1..Len(bs) |-> [bs[b] EXCEPT !.entries =
      [j \in 1..Len(@) |-> IF @[j].name = n THEN [@[j] EXCEPT !.e = Subst(@.e, (old :> Var(new)))] ELSE @[j]]]]

\* the entry of name n as it stands in the text (with its annotations): an IDENTICAL repetition repeats all of it
EntryIn(bs, n) == LET b == CHOOSE b \in 1..Len(bs) : \E j \in 1..Len(bs[b].entries) : bs[b].entries[j].name = n
                      j == CHOOSE j \in 1..Len(bs[b].entries) : bs[b].entries[j].name = n
                  IN bs[b].entries[j]
OtherComp(c) == IF c = "A" THEN "B" ELSE IF c = "B" THEN "A" ELSE "Z"
AssignNamesOf(m) == m.aN
FaultKinds == {"dup-identical", "dup-diff-samedeps", "dup-regrouped", "dup-diff-deps", "dup-other-comp-diff", "dup-other-comp-identical",
               "clash-state-param-equal", "clash-state-param-unequal", "clash-param-inter", "clash-state-inter",
               "clash-param-derivative", "clash-param-any-assignment",
               "dup-state-diff", "dup-param-diff", "dup-state-identical",
               "missing-derivative", "orphan-derivative", "misplaced-derivative",
               "orphan-derivative-stateless", "derivative-of-parameter", "derivative-copy-elsewhere",
               "undefined-symbol", "cycle-1", "cycle-2", "undefined-in-param-value"}
\* sites: an assignment name (or a state / parameter name)
Sites(k) ==
  CASE k \in {"dup-identical", "dup-diff-samedeps", "dup-regrouped", "dup-diff-deps", "dup-other-comp-diff", "dup-other-comp-identical",
              "undefined-symbol", "cycle-1"} -> mi.aN
    [] k \in {"missing-derivative", "misplaced-derivative", "derivative-copy-elsewhere", "clash-param-derivative"} -> mi.dN
    [] k = "clash-param-any-assignment" -> mi.aN
    [] k \in {"clash-state-param-equal", "clash-state-param-unequal", "clash-state-inter", "dup-state-diff", "dup-state-identical"} -> mi.sN
    [] k \in {"clash-param-inter", "dup-param-diff", "undefined-in-param-value"} -> mi.pN
    [] k = "cycle-2" -> {n \in mi.iN : \E m \in mi.aN : n \in Vars(mi.ex[m]) /\ m # n}
    [] OTHER -> {"x"}

Apply(bs, k, n) ==
  LET c == IF n \in DOMAIN mi.cp THEN mi.cp[n] ELSE "" 
      e == IF n \in DOMAIN mi.ex THEN mi.ex[n] ELSE One IN
  CASE k = "dup-identical"       -> AddEntry(bs, "expressions", c, EntryIn(bs, n))
    [] k = "dup-diff-samedeps"   -> AddEntry(bs, "expressions", c, Entry(n, Bn("add", e, N("1"))))
    \* the same token sequence up to parentheses, another tree and another value:  e - 1 - 2  versus  e - (1 - 2)
    [] k = "dup-regrouped"       -> AddEntry(ReplaceExpr(bs, n, Bn("sub", Bn("sub", e, N("1")), N("2"))), "expressions", c,
                                             Entry(n, Bn("sub", e, Bn("sub", N("1"), N("2")))))
    [] k = "dup-diff-deps"       -> AddEntry(bs, "expressions", c, Entry(n, Bn("add", e, Var("t"))))
    [] k = "dup-other-comp-diff" -> AddEntry(bs, "expressions", OtherComp(c), Entry(n, Bn("mul", e, N("2"))))
    [] k = "dup-other-comp-identical" -> AddEntry(bs, "expressions", OtherComp(c), EntryIn(bs, n))
    [] k = "clash-state-param-equal"   -> AddEntry(bs, "parameters", c, Entry(n, e))
    [] k = "clash-state-param-unequal" -> AddEntry(bs, "parameters", c, Entry(n, N("8")))
    [] k = "clash-param-inter"   -> AddEntry(bs, "expressions", c, Entry(n, N("8")))
    [] k = "clash-state-inter"   -> AddEntry(bs, "expressions", c, Entry(n, e))
    \* a DECLARED quantity that carries the name of an assigned one: a parameter named like a state derivative
    \* (parameters(dx_dt = 8) next to dx_dt = ..), a parameter named like any assignment, declared in the other component
    [] k = "clash-param-derivative"     -> AddEntry(bs, "parameters", c, Entry(n, N("8")))
    [] k = "clash-param-any-assignment" -> AddEntry(bs, "parameters", OtherComp(c), Entry(n, N("8")))
    [] k = "dup-state-diff"      -> AddEntry(bs, "states", c, Entry(n, N("8")))
    [] k = "dup-state-identical" -> AddEntry(bs, "states", c, EntryIn(bs, n))
    [] k = "dup-param-diff"      -> AddEntry(bs, "parameters", c, Entry(n, N("8")))
    [] k = "missing-derivative"  -> NonEmpty(RemoveName(bs, n))
    [] k = "orphan-derivative"   -> AddEntry(bs, "expressions", IF layout = "split" THEN "A" ELSE "", Entry("dk_dt", One))
    \* a derivative-shaped name in a component that declares no state at all / only the parameter it names
    [] k = "orphan-derivative-stateless" -> AddEntry(bs, "expressions", "Z", Entry("dk_dt", One))
    [] k = "derivative-of-parameter" -> AddEntry(AddEntry(bs, "parameters", "Z", Entry("k", One)), "expressions", "Z",
                                                 Entry("dk_dt", Var("k")))
    \* the derivative stays where it is and is given once more, with another right-hand side, in a state-less component
    [] k = "derivative-copy-elsewhere" -> AddEntry(bs, "expressions", "Z", Entry(n, Bn("add", e, N("1"))))
    [] k = "misplaced-derivative" -> AddEntry(NonEmpty(RemoveName(bs, n)), "expressions", OtherComp(c), Entry(n, e))
    [] k = "undefined-symbol"    -> ReplaceExpr(bs, n, Bn("add", e, Var("c")))      \* "c" is not defined when NInter < 3
    [] k = "cycle-1"             -> ReplaceExpr(bs, n, Bn("add", e, Var(n)))
    [] k = "cycle-2"             -> LET m == CHOOSE m \in mi.aN : n \in Vars(mi.ex[m]) /\ m # n IN
                                    ReplaceExpr(bs, n, Bn("add", e, Var(m)))
    [] k = "undefined-in-param-value" -> ReplaceExpr(bs, n, Bn("mul", e, Var("x")))

FInit == Init /\ fault = None /\ fblocks = None /\ fmi = None
FChoose == Choose /\ UNCHANGED <<fault, fblocks, fmi>>
Fault == /\ pc = "done" /\ HashS % BaseMod = 0
         /\ \E k \in FaultKinds : \E n \in Sites(k) :
              /\ fault' = [kind |-> k, site |-> n]
              /\ fblocks' = Apply(ModelOf(deps, layout).blocks, k, n)
              /\ fmi' = Info([blocks |-> fblocks'])
         /\ pc' = "faulted" /\ UNCHANGED <<deps, sched, i, layout, mi, lay>>
FNext == FChoose \/ Fault
FSpec == FInit /\ [][FNext]_fvars
Faulted == pc = "faulted"

\* the outcome of the pipeline on the faulted text: rejected no later than code generation
FOutcome == IF LoadOutcome(fmi) # "ok" THEN LoadOutcome(fmi)
            ELSE SortOutcome(fmi, CanonSched(fmi))
C08_AcceptIffWellFormed == Faulted => ((FOutcome = "ok") <=> WellFormed(fmi))
\* every fault kind that introduces a DIFFERING definition, a broken pairing, an undefined symbol or a cycle is ill-formed
IllFormedKinds == FaultKinds \ {"dup-identical", "dup-other-comp-identical", "dup-state-identical"}
C08_FaultsAreIllFormed == Faulted => (fault.kind \in IllFormedKinds => ~WellFormed(fmi))
\* an accepted text has exactly one definition per name (identical repetitions collapse)
C08_NoSilentChoice == Faulted /\ FOutcome = "ok" =>
     \A a, b \in fmi.atoms : a.name = b.name => (a.kind = b.kind /\ a.e = b.e)

KindSeq == SetToSeq(FaultKinds)
\* Hash (sums of cardinalities) is too regular to sample with: a polynomial hash of the dependency sets themselves,
\* mixed with kind and site, so that every kind is emitted (the harness refuses to run with a kind that has no text)
FHash == ((Hash2 % 10007) * 31 + (Hash \div BaseMod) * 17 + 7919 * (CHOOSE j \in 1..Len(KindSeq) : KindSeq[j] = fault.kind)
          + 3571 * PosN(fault.site) + (IF layout = "single" THEN 0 ELSE IF layout = "split" THEN 1 ELSE IF layout = "noparams" THEN 2 ELSE 3)) % 100003
FEmit == (Faulted /\ FaultEmitMod > 0 /\ FHash % FaultEmitMod = 0) =>
   PrintT(ToJson([blocks |-> BlocksJson(fblocks), fault |-> fault, wellformed |-> WellFormed(fmi), outcome |-> FOutcome,
                  names |-> NameOrder]))
=============================================================================
