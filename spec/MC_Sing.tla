------------------------------- MODULE MC_Sing -------------------------------
(***************************************************************************)
(* C16: singularity removal changes a model only at its removable singular *)
(* points.  Expressions are built from a catalogue of functions with a     *)
(* removable singularity at u = 0,                                         *)
(*     F1(u) = u/(exp(u)-1) -> 1     F2(u) = sin(u)/u -> 1                 *)
(*     F3(u) = (exp(u)-1)/u -> 1     F4(u) = log(1+u)/u -> 1               *)
(*     F5(u) = (1-cos(u))/(u*u) -> 1/2     F6(u) = u/u -> 1                *)
(*     F7(u) = (u*u + 2*u)/u -> 2                                          *)
(* applied to u = x, x - 2, x - a, y, scaled, added and multiplied; plus   *)
(* non-removable (1/x, log(x)) and singularity-free expressions.           *)
(* Reference meaning (RefEval): an rs node whose argument is exactly 0 has *)
(* the value of its limit, otherwise the value of its defining expression; *)
(* sums and products compose.  This is what remove_singularities must give *)
(* at every input; off the singular points it is the original meaning.     *)
(***************************************************************************)
EXTENDS OdeText, Json
CONSTANTS Fam

NumLexDef == [t \in {"0","1","2","3","0.5"} |-> CASE t = "0.5" -> <<1,2>> [] t = "0" -> <<0,1>> [] t = "1" -> <<1,1>> [] t = "2" -> <<2,1>> [] t = "3" -> <<3,1>>]
N(tok) == NumOf(tok)
X == Var("x")  Y == Var("y")  A == Var("a")
Rs(f, u) == [op |-> "rs", f |-> f, u |-> u]
RsIds == {"F1", "F2", "F3", "F4", "F5", "F6", "F7"}
Def(f, u) ==
  CASE f = "F1" -> Bn("div", u, Bn("sub", Fn("exp", u), One))
    [] f = "F2" -> Bn("div", Fn("sin", u), u)
    [] f = "F3" -> Bn("div", Bn("sub", Fn("exp", u), One), u)
    [] f = "F4" -> Bn("div", Fn("log", Bn("add", One, u)), u)
    [] f = "F5" -> Bn("div", Bn("sub", One, Fn("cos", u)), Bn("mul", u, u))
    [] f = "F6" -> Bn("div", u, u)
    [] f = "F7" -> Bn("div", Bn("add", Bn("mul", u, u), Bn("mul", Two, u)), u)
Lim(f) == CASE f = "F5" -> Q(1,2) [] f = "F7" -> Q(2,1) [] OTHER -> Q(1,1)

\* expansion to a plain expression (the text handed to gotranx)
RECURSIVE Expand(_)
Expand(e) ==
  CASE e.op = "rs" -> Def(e.f, Expand(e.u))
    [] e.op \in {"num", "big", "pi", "var"} -> e
    [] e.op \in {"neg", "pos", "fn"} -> [e EXCEPT !.a = Expand(e.a)]
    [] OTHER -> [e EXCEPT !.a = Expand(e.a), !.b = Expand(e.b)]
\* reference meaning: limits at the removable points
RECURSIVE RefEval(_,_)
RefEval(e, env) ==
  CASE e.op = "rs" -> LET u == ToNum(RefEval(e.u, env)) IN
                      IF IsU(u) THEN u ELSE IF IsQ(u) /\ u.n = 0 THEN Lim(e.f)
                      ELSE Eval(Def(e.f, Var("__u")), [v \in {"__u", "t"} |-> IF v = "t" THEN QZero ELSE u], TRUE)
    [] e.op \in {"num", "big", "pi", "var"} -> Eval(e, env, TRUE)
    [] e.op = "neg" -> Arith("sub", QZero, ToNum(RefEval(e.a, env)))
    [] e.op = "fn" -> LET a == ToNum(RefEval(e.a, env)) IN IF IsU(a) THEN a ELSE IF IsQ(a) THEN Fn1(e.f, a) ELSE Res1(FnCanon(e.f), a)
    [] OTHER -> Arith(e.op, ToNum(RefEval(e.a, env)), ToNum(RefEval(e.b, env)))
RECURSIVE RsNodes(_)
RsNodes(e) == CASE e.op = "rs" -> {e} \cup RsNodes(e.u)
                [] e.op \in {"num", "big", "pi", "var"} -> {}
                [] e.op \in {"neg", "pos", "fn"} -> RsNodes(e.a)
                [] OTHER -> RsNodes(e.a) \cup RsNodes(e.b)

Args == {X, Bn("sub", X, Two), Bn("sub", X, A), Y, Bn("mul", Two, X)}
Base == {Rs(f, u) : f \in RsIds, u \in Args}
Single == Base \cup {Bn("mul", A, b) : b \in Base} \cup {Bn("add", b, Y) : b \in Base} \cup {Bn("sub", X, b) : b \in Base}
          \cup {Neg(b) : b \in Base} \cup {Bn("mul", b, Fn("exp", Neg(Y))) : b \in Base}
          \* limits that are symbolic quotients (finite, but not provably so without assumptions on the divisor)
          \cup {Bn("div", b, A) : b \in Base} \cup {Bn("div", Bn("mul", A, b), Bn("add", One, Bn("mul", Y, Y))) : b \in Base}
Small == {Rs(f, u) : f \in {"F1", "F2", "F6", "F7"}, u \in {X, Bn("sub", X, Two), Y}}
Double(b1) == {Bn(o, b1, b2) : o \in {"add", "mul", "sub"}, b2 \in Small \ {b1}}
Triple(b1) == {Bn("add", Bn("add", b1, Rs("F1", Bn("sub", X, Two))), Rs("F2", Y)), Bn("mul", b1, Bn("add", Rs("F6", Bn("sub", X, A)), Rs("F7", Y)))}
None0 == {Bn("div", One, X), Fn("log", X), Bn("mul", X, X), Bn("add", Fn("exp", X), Y), Bn("div", One, Bn("mul", X, X)),
          Bn("div", Y, Bn("sub", X, A)), Bn("add", Bn("div", One, X), Rs("F1", Y)), Fn("sqrt", Bn("mul", X, X))}

Marker == [op |-> "marker"]
SlotA == CASE Fam = 1 -> {Marker} [] Fam = 2 -> Small [] Fam = 3 -> Small [] Fam = 4 -> {Marker}
Compose(a) == CASE Fam = 1 -> Single [] Fam = 2 -> Double(a) [] Fam = 3 -> Triple(a) [] Fam = 4 -> None0

VARIABLES pc, a, e
vars == <<pc, a, e>>
Init == pc = "a" /\ a = Marker /\ e = Marker
PickA == pc = "a" /\ a' \in SlotA /\ pc' = "e" /\ e' = e
PickE == pc = "e" /\ e' \in Compose(a) /\ pc' = "done" /\ a' = a
Spec == Init /\ [][PickA \/ PickE]_vars
Done == pc = "done"

Xs == <<Q(0,1), Q(2,1), Q(3,1), Q(1,2), Q(-1,1)>>
Ys == <<Q(0,1), Q(1,1)>>
Av == Q(3,1)
Grid == {<<xi, yi>> : xi \in 1..Len(Xs), yi \in 1..Len(Ys)}
EnvOf(g) == [x |-> Xs[g[1]], y |-> Ys[g[2]], a |-> Av, t |-> Q(0,1)]
\* the value with a free placeholder: Def(f, val) is evaluated with the argument value bound to "__u"
\* (the placeholder node is a variable in disguise)
\* off the singular points the reference is the original meaning
C16_AgreesOffSingular == Done => \A g \in Grid :
     LET o == Eval(Expand(e), EnvOf(g), TRUE) IN (~IsU(o) /\ IsQ(o)) => o = RefEval(e, EnvOf(g))
C16_TextRoundTrip == Done => Parse(Render(Expand(e), "min")).ast = Expand(e)
OnSingular(g) == \E n \in RsNodes(e) : LET u == ToNum(RefEval(n.u, EnvOf(g))) IN IsQ(u) /\ u.n = 0
\* the same rate with the singular argument routed through an intermediate:  w = <argument>;  rate = e[argument := w]
\* (the singular variable is then a state-dependent intermediate, not a state); defined when every removable node
\* has the same argument
RECURSIVE ViaW(_)
ViaW(x) == CASE x.op = "rs" -> [x EXCEPT !.u = Var("w")]
             [] x.op \in {"num", "big", "pi", "var"} -> x
             [] x.op \in {"neg", "pos", "fn"} -> [x EXCEPT !.a = ViaW(x.a)]
             [] OTHER -> [x EXCEPT !.a = ViaW(x.a), !.b = ViaW(x.b)]
ViaArgs == {n.u : n \in RsNodes(e)}
ViaOk == Cardinality(ViaArgs) = 1 /\ RsNodes(CHOOSE u \in ViaArgs : TRUE) = {}
Emit == Done => PrintT(ToJson([via_ok |-> ViaOk,
                               via_w |-> IF ViaOk THEN Render(Expand(CHOOSE u \in ViaArgs : TRUE), "min") ELSE <<>>,
                               via_body |-> IF ViaOk THEN Render(Expand(ViaW(e)), "min") ELSE <<>>,
                               toks |-> Render(Expand(e), "min"), nsing |-> Cardinality({Expand(n.u) : n \in RsNodes(e)}),
                               removable |-> RsNodes(e) # {},
                               grid |-> [g \in Grid |-> [x |-> Xs[g[1]], y |-> Ys[g[2]], on_singular |-> OnSingular(g),
                                                          ref |-> RefEval(e, EnvOf(g)), orig |-> Eval(Expand(e), EnvOf(g), TRUE)]]]))
EmitHeader == pc = "a" => PrintT(ToJson([header |-> TRUE, a |-> Av]))
=============================================================================
