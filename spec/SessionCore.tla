---------------------------- MODULE SessionCore ----------------------------
(***************************************************************************)
(* A process using the library: the observable output of "generate code    *)
(* for model m with scheme f" must be a function of (m, options) only -    *)
(* not of the calls made earlier in the same process (C09, "histories").   *)
(*                                                                         *)
(* State that survives between calls in the implementation:                *)
(*   coName[f]  the __code__.co_name of the module-level scheme function f *)
(*              (CodeGenerator.scheme uses it as the NAME of the emitted   *)
(*              function); get_scheme(alias) is the only writer.           *)
(* Mutating == TRUE models the design in which get_scheme rewrites the     *)
(* shared function (the behaviour found in the code), FALSE the repaired   *)
(* design in which it returns a renamed copy.                              *)
(***************************************************************************)
EXTENDS Integers, Sequences, FiniteSets


CONSTANTS Mutating, MaxCalls

Funcs == {"explicit_euler", "generalized_rush_larsen", "hybrid_rush_larsen"}
AliasOf == [a \in {"forward_euler", "forward_explicit_euler", "euler", "explicit_euler",
                   "forward_generalized_rush_larsen", "generalized_rush_larsen",
                   "forward_rush_larsen", "rush_larsen", "hybrid_rush_larsen"} |->
              CASE a \in {"forward_euler", "forward_explicit_euler", "euler", "explicit_euler"} -> "explicit_euler"
                [] a \in {"forward_generalized_rush_larsen", "generalized_rush_larsen"} -> "generalized_rush_larsen"
                [] OTHER -> "hybrid_rush_larsen"]
Aliases == DOMAIN AliasOf

VARIABLES coName,   \* process-global: function -> current code name
          hist,     \* the calls made so far
          out       \* observation of the last call: the name of the emitted function ("" if none)
vars == <<coName, hist, out>>

Init == coName = [f \in Funcs |-> f] /\ hist = <<>> /\ out = ""

\* get_scheme(alias): returns a function object whose code name is the alias
GetScheme(a) == /\ coName' = IF Mutating THEN [coName EXCEPT ![AliasOf[a]] = a] ELSE coName
                /\ hist' = Append(hist, [call |-> "get_scheme", arg |-> a]) /\ out' = ""
\* gotran2py.get_code(ode, scheme=[a]): add_schemes calls get_scheme(a) and emits under that name
GetCode(a) == /\ coName' = IF Mutating THEN [coName EXCEPT ![AliasOf[a]] = a] ELSE coName
              /\ hist' = Append(hist, [call |-> "get_code", arg |-> a]) /\ out' = a
\* codegen.scheme(gotranx.schemes.<f>): the module-level function used directly
SchemeDirect(f) == /\ out' = coName[f] /\ UNCHANGED coName
                   /\ hist' = Append(hist, [call |-> "scheme_direct", arg |-> f])
Next == /\ Len(hist) < MaxCalls
        /\ \/ \E a \in Aliases : GetScheme(a) \/ GetCode(a)
           \/ \E f \in Funcs : SchemeDirect(f)
Spec == Init /\ [][Next]_vars

\* the observation of a call is a function of the call alone
Expected(c) == IF c.call = "get_code" THEN c.arg ELSE IF c.call = "scheme_direct" THEN c.arg ELSE ""
C09_HistoryIndependent == hist # <<>> => out = Expected(hist[Len(hist)])

=============================================================================
