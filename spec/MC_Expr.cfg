SPECIFICATION Spec
CONSTANTS
  NumLex <- NumLexDef
  BigToks <- BigToksDef
  Lvl = 4
INVARIANT ParseRenderId
INVARIANT WellTyped
INVARIANT LazyRefinesStrict
INVARIANT Emit
VIEW View
CHECK_DEADLOCK FALSE
