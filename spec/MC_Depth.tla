------------------------------ MODULE MC_Depth ------------------------------
(***************************************************************************)
(* C20: symbolic right-hand side and Jacobian.  Dependency chains of every *)
(* depth 1..MaxD, diamonds and conditionals over intermediates.  The       *)
(* reference: every intermediate expanded (ExpandAll), the Jacobian entry  *)
(* (i, j) = value of Diff(expanded rate of state i, state j) computed by   *)
(* the specification's own differentiator.  TLC also checks that expanding *)
(* agrees with the meaning of the model (Den) and terminates for every     *)
(* acyclic depth.                                                          *)
(***************************************************************************)
EXTENDS Pipeline, Json
CONSTANTS MaxD

NumLexDef == [t \in {"0","1","2","3","0.5"} |-> CASE t = "0.5" -> <<1,2>> [] t = "0" -> <<0,1>> [] t = "1" -> <<1,1>> [] t = "2" -> <<2,1>> [] t = "3" -> <<3,1>>]
Digit(k) == CASE k = 0 -> "0" [] k = 1 -> "1" [] k = 2 -> "2" [] k = 3 -> "3" [] k = 4 -> "4" [] k = 5 -> "5" [] k = 6 -> "6" [] k = 7 -> "7" [] k = 8 -> "8" [] k = 9 -> "9"
IName(k) == "i" \o Digit(k \div 10) \o Digit(k % 10)
NameOrderDef == <<"dx_dt", "dy_dt">> \o [k \in 1..60 |-> IName(k)] \o <<"p", "x", "y">>
N(tok) == NumOf(tok)
X == Var("x")  Y == Var("y")  P == Var("p")
Shapes == {"chain-linear", "chain-square", "diamond", "conditional", "two-chains",
           \* intermediates that are bare names or numbers (aliases), alone and between computing steps
           "alias-param", "alias-number", "alias-state", "alias-composite", "alias-interleaved",
           \* many intermediates feeding one rate; a chain written last-first; a chain through time
           "fan-in", "reverse", "time"}

\* the assignments of a shape of depth d: sequence of [name, e]
I(k) == Var(IName(k))
ChainStep(k) == IF k % 2 = 0 THEN Bn("add", I(k - 1), Y) ELSE Bn("sub", X, I(k - 1))
Lines(shape, d) ==
  CASE shape = "chain-linear" ->
         <<[name |-> IName(1), e |-> Bn("add", X, N("1"))]>> \o [j \in 1..(d - 1) |-> [name |-> IName(j + 1), e |-> ChainStep(j + 1)]]
         \o <<[name |-> "dx_dt", e |-> Bn("sub", I(d), X)], [name |-> "dy_dt", e |-> Bn("mul", I(d), Y)]>>
    [] shape = "chain-square" ->
         <<[name |-> IName(1), e |-> Bn("mul", X, X)]>> \o [j \in 1..(d - 1) |-> [name |-> IName(j + 1), e |-> ChainStep(j + 1)]]
         \o <<[name |-> "dx_dt", e |-> Bn("mul", I(d), P)], [name |-> "dy_dt", e |-> Bn("sub", I(d), Bn("mul", Y, Y))]>>
    [] shape = "diamond" ->
         <<[name |-> IName(1), e |-> Bn("add", X, Y)]>>
         \o [j \in 1..(d - 1) |-> LET k == j + 1 IN
                                    [name |-> IName(k), e |-> IF k % 3 = 2 THEN Bn("mul", I(k - 1), N("2"))
                                                              ELSE IF k % 3 = 0 THEN Bn("sub", I(k - 2), Y)
                                                              ELSE Bn("add", I(k - 1), I(k - 2))]]
         \o <<[name |-> "dx_dt", e |-> Bn("sub", I(d), Bn("mul", P, X))], [name |-> "dy_dt", e |-> Bn("add", I(d), I(1))]>>
    [] shape = "conditional" ->
         <<[name |-> IName(1), e |-> Cond(Rel("Gt", X, Y), Bn("mul", X, N("2")), Bn("mul", Y, Y))]>>
         \o [j \in 1..(d - 1) |-> LET k == j + 1 IN
                                    [name |-> IName(k), e |-> IF k % 2 = 0 THEN Cond(Rel("Lt", I(k - 1), N("1")), Bn("add", I(k - 1), X), I(k - 1))
                                                              ELSE Bn("sub", I(k - 1), N("0.5"))]]
         \o <<[name |-> "dx_dt", e |-> I(d)], [name |-> "dy_dt", e |-> Bn("mul", Neg(I(d)), Y)]>>
    [] shape = "two-chains" ->
         <<[name |-> IName(1), e |-> Bn("add", X, P)], [name |-> IName(31), e |-> Bn("mul", Y, N("2"))]>>
         \o [j \in 1..(d - 1) |-> [name |-> IName(j + 1), e |-> ChainStep(j + 1)]]
         \o [j \in 1..(d \div 2) |-> [name |-> IName(31 + j), e |-> Bn("sub", I(30 + j), N("1"))]]
         \o <<[name |-> "dx_dt", e |-> Bn("mul", I(d), I(30 + d \div 2 + 1))], [name |-> "dy_dt", e |-> Bn("sub", I(31), I(d))]>>

RECURSIVE SumI(_)
SumI(k) == IF k = 1 THEN I(1) ELSE Bn("add", SumI(k - 1), I(k))
RECURSIVE Rev(_)
Rev(sq) == IF sq = <<>> THEN <<>> ELSE Append(Rev(Tail(sq)), Head(sq))
Aliases(d) == [j \in 1..(d - 1) |-> [name |-> IName(j + 1), e |-> I(j)]]
Lines2(shape, d) ==
  CASE shape = "alias-param" ->
         <<[name |-> IName(1), e |-> P]>> \o Aliases(d)
         \o <<[name |-> "dx_dt", e |-> Bn("mul", I(d), X)], [name |-> "dy_dt", e |-> Bn("add", I(d), Y)]>>
    [] shape = "alias-number" ->
         <<[name |-> IName(1), e |-> N("3")]>> \o Aliases(d)
         \o <<[name |-> "dx_dt", e |-> Bn("mul", I(d), X)], [name |-> "dy_dt", e |-> Bn("sub", Y, I(d))]>>
    [] shape = "alias-state" ->
         <<[name |-> IName(1), e |-> X]>> \o Aliases(d)
         \o <<[name |-> "dx_dt", e |-> Neg(I(d))], [name |-> "dy_dt", e |-> Bn("mul", I(d), Y)]>>
    [] shape = "alias-composite" ->
         <<[name |-> IName(1), e |-> Bn("mul", Bn("mul", P, X), Y)]>> \o Aliases(d)
         \o <<[name |-> "dx_dt", e |-> Bn("sub", I(d), X)], [name |-> "dy_dt", e |-> Bn("mul", I(d), I(1))]>>
    [] shape = "alias-interleaved" ->
         <<[name |-> IName(1), e |-> P]>>
         \o [j \in 1..(d - 1) |-> LET k == j + 1 IN
                [name |-> IName(k), e |-> IF k % 2 = 0 THEN I(k - 1) ELSE IF k % 4 = 1 THEN Bn("add", I(k - 1), X) ELSE Bn("mul", I(k - 1), Y)]]
         \o <<[name |-> "dx_dt", e |-> Bn("sub", I(d), X)], [name |-> "dy_dt", e |-> Bn("add", I(d), I(1))]>>
    [] shape = "fan-in" ->
         [k \in 1..d |-> [name |-> IName(k), e |-> IF k % 3 = 0 THEN Bn("add", X, Y) ELSE IF k % 3 = 1 THEN Bn("mul", Y, P) ELSE X]]
         \o <<[name |-> "dx_dt", e |-> SumI(d)], [name |-> "dy_dt", e |-> Bn("mul", I(1), I(d))]>>
    [] shape = "reverse" -> Rev(Lines("chain-linear", d))
    [] shape = "time" ->
         <<[name |-> IName(1), e |-> Bn("add", Var("t"), X)]>> \o [j \in 1..(d - 1) |-> [name |-> IName(j + 1), e |-> ChainStep(j + 1)]]
         \o <<[name |-> "dx_dt", e |-> Bn("mul", I(d), Var("t"))], [name |-> "dy_dt", e |-> Bn("sub", I(d), Y)]>>
AllLines(shape, d) == IF shape \in {"chain-linear", "chain-square", "diamond", "conditional", "two-chains"} THEN Lines(shape, d) ELSE Lines2(shape, d)

ModelOf(shape, d) == [blocks |-> << [k |-> "states", comp |-> "", entries |-> <<[name |-> "x", e |-> N("1")], [name |-> "y", e |-> N("2")]>>],
                                     [k |-> "parameters", comp |-> "", entries |-> <<[name |-> "p", e |-> N("3")]>>],
                                     [k |-> "expressions", comp |-> "", entries |-> AllLines(shape, d)] >>]

VARIABLES pc, shape, d, mi
vars == <<pc, shape, d, mi>>
None == [none |-> TRUE]
Init == pc = "pick" /\ shape = "" /\ d = 0 /\ mi = None
Cap(sh) == CASE sh = "two-chains" -> 29 [] sh = "diamond" -> 12 [] sh = "conditional" -> 11 [] sh = "fan-in" -> 30 [] OTHER -> 60      \* the diamond's expansion grows like Fibonacci
Pick == /\ pc = "pick" /\ shape' \in Shapes /\ d' \in 1..(IF MaxD > Cap(shape') THEN Cap(shape') ELSE MaxD)
        /\ mi' = Info(ModelOf(shape', d')) /\ pc' = "done"
Spec == Init /\ [][Pick]_vars
Done == pc = "done"

\* every intermediate expanded, bottom-up (terminates for every acyclic depth)
RECURSIVE ExpandFill(_,_,_)
ExpandFill(m, done, left) ==
  LET ready == {n \in left : Vars(m.ex[n]) \cap m.iN \subseteq DOMAIN done} IN
  IF ready = {} THEN done
  ELSE ExpandFill(m, [n \in DOMAIN done \cup ready |-> IF n \in DOMAIN done THEN done[n] ELSE Subst(m.ex[n], done)], left \ ready)
Expanded(m) == LET im == ExpandFill(m, <<>>, m.iN) IN [s \in m.sN |-> Subst(m.ex[DName(s)], im)]

Inputs == << [t |-> Q(0,1), dt |-> Q(0,1), states |-> [x |-> Q(3,2), y |-> Q(-1,2)], params |-> [p |-> Q(2,1)], missing |-> <<>>],
             [t |-> Q(1,1), dt |-> Q(0,1), states |-> [x |-> Q(-1,1), y |-> Q(2,1)], params |-> [p |-> Q(1,2)], missing |-> <<>>] >>
Env(inp) == [v \in {"x", "y", "p", "t"} |-> IF v = "x" THEN inp.states.x ELSE IF v = "y" THEN inp.states.y ELSE IF v = "p" THEN inp.params.p ELSE inp.t]
RhsVal(m, inp) == [s \in m.sN |-> ToNum(Eval(Expanded(m)[s], Env(inp), TRUE))]
JacVal(m, inp) == [s \in m.sN |-> [r \in m.sN |-> ToNum(Eval(Diff(Expanded(m)[s], r), Env(inp), TRUE))]]

C20_Terminates == Done => (DOMAIN Expanded(mi) = mi.sN /\ \A s \in mi.sN : Vars(Expanded(mi)[s]) \cap mi.iN = {})
C20_RhsExpanded == Done => \A ii \in 1..Len(Inputs) :
     LET den == DenAll(mi, Inputs[ii]) IN SameVals(RhsVal(mi, Inputs[ii]), [s \in mi.sN |-> den[DName(s)]])
C20_WellFormed == Done => (WellFormed(mi) /\ LoadOutcome(mi) = "ok")

RECURSIVE BlocksJson(_)
BlocksJson(bs) == IF bs = <<>> THEN <<>> ELSE
   <<[k |-> Head(bs).k, comp |-> Head(bs).comp,
      entries |-> [j \in 1..Len(Head(bs).entries) |-> [name |-> Head(bs).entries[j].name, toks |-> Render(Head(bs).entries[j].e, "min")]]]>>
   \o BlocksJson(Tail(bs))
Emit == Done => PrintT(ToJson([blocks |-> BlocksJson(ModelOf(shape, d).blocks), shape |-> shape, depth |-> d, names |-> NameOrder,
                               cases |-> [ii \in 1..Len(Inputs) |-> [input |-> [t |-> Inputs[ii].t, states |-> Inputs[ii].states, params |-> Inputs[ii].params],
                                                                      rhs |-> RhsVal(mi, Inputs[ii]), jac |-> JacVal(mi, Inputs[ii])]]]))
=============================================================================
