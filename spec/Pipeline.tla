------------------------------ MODULE Pipeline ------------------------------
(***************************************************************************)
(* gotranx as a pipeline of stage operators, structured like the code:     *)
(*                                                                         *)
(*   text (blocks) --TreeToODE.ode--> atoms --Component--> classified      *)
(*     --make_ode (complete? duplicates? resolve)--> model                 *)
(*     --sort_assignments (graphlib, iteration schedule)--> order          *)
(*     --sorted_states / parameters / *_index--> layout                    *)
(*     --CodeGenerator.rhs / monitor_values / missing_values / scheme-->   *)
(*         statement lists (unpack / def / lin / store)                    *)
(*     --execution of a generated function in ONE flat namespace--> values *)
(*                                                                         *)
(* and, independently, the MEANING of a model text: Den (denotational,     *)
(* per name) and WellFormed (acceptance criterion of C08).  The properties *)
(* C01, C04, C05, C06, C07, C08, C09, C10, C12, C13, C20 are formulas that *)
(* relate the operational pipeline to the meaning.                         *)
(*                                                                         *)
(* A model text M is  [blocks |-> <<block, ...>>]  with                    *)
(*   block = [k |-> "states" | "parameters" | "expressions",               *)
(*            comp |-> component name ("" = none), entries |-> <<[name, e]>>] *)
(***************************************************************************)
EXTENDS OdeText, Graphlib, SequencesExt

CONSTANTS NameOrder      \* every identifier in play, in the order Python's sorted() gives

NameSet == SeqSet(NameOrder)
PosN(n) == CHOOSE i \in 1..Len(NameOrder) : NameOrder[i] = n
SortByName(S) == SetToSortSeq(S, LAMBDA a, b : PosN(a) < PosN(b))
IndexIn(s, x) == CHOOSE i \in 1..Len(s) : s[i] = x          \* 1-based position
SlotIn(s, x) == IndexIn(s, x) - 1                            \* 0-based slot

DName(s) == "d" \o s \o "_dt"
IsDerivShaped(n) == \E s \in NameSet : n = DName(s)          \* ode_component.STATE_DERIV_EXPR
StateOfDName(n) == CHOOSE s \in NameSet : n = DName(s)
LinName(d) == d \o "_linearized"

\* ---------------------------------------------------------------------------
\* TreeToODE.ode: blocks -> atoms (in textual order)
KindOf(k) == CASE k = "states" -> "state" [] k = "parameters" -> "param" [] k = "expressions" -> "assign"
RECURSIVE Flatten(_)
Flatten(bs) == IF bs = <<>> THEN <<>> ELSE
  LET b == Head(bs) IN
  [i \in 1..Len(b.entries) |-> [kind |-> KindOf(b.k), name |-> b.entries[i].name, comp |-> b.comp, e |-> b.entries[i].e]]
  \o Flatten(Tail(bs))
Atoms(M) == Flatten(M.blocks)

\* Everything later stages need, computed once per model ("model info", the ODE object):
\*   atoms (set: identical repetitions collapse, as in the per-component sets of TreeToODE.ode),
\*   the name sets by kind, ex: name -> defining expression, cp: name -> component
Info(M) ==
  LET as == SeqSet(Atoms(M))
      sN == {a.name : a \in {b \in as : b.kind = "state"}}
      pN == {a.name : a \in {b \in as : b.kind = "param"}}
      aN == {a.name : a \in {b \in as : b.kind = "assign"}}
      dN == {n \in aN : IsDerivShaped(n)}
      def == sN \cup pN \cup aN
      ex == [n \in def |-> (CHOOSE a \in as : a.name = n).e]
      used == UNION {Vars(ex[n]) : n \in aN}
  IN [atoms |-> as, sN |-> sN, pN |-> pN, aN |-> aN, dN |-> dN, iN |-> aN \ dN, def |-> def,
      ex |-> ex, cp |-> [n \in def |-> (CHOOSE a \in as : a.name = n).comp],
      used |-> used,
      \* ODE.missing_variables: used, not defined, not time
      missing |-> used \ (def \cup TimeNames)]
OfKind(mi, k) == {a \in mi.atoms : a.kind = k}

\* ---------------------------------------------------------------------------
\* C08: the acceptance criterion, written from the property
NoDifferingDefinitions(mi) ==
  \A a, b \in mi.atoms : a.name = b.name => (a.kind = b.kind /\ a.e = b.e)
EveryStateHasDerivative(mi) ==
  \A s \in OfKind(mi, "state") : \E a \in OfKind(mi, "assign") : a.name = DName(s.name) /\ a.comp = s.comp
EveryDerivativeHasState(mi) ==
  \A a \in OfKind(mi, "assign") : IsDerivShaped(a.name) =>
     \E s \in OfKind(mi, "state") : s.name = StateOfDName(a.name) /\ s.comp = a.comp
DeclaredValuesClosed(mi) == \A a \in OfKind(mi, "state") \cup OfKind(mi, "param") : Vars(a.e) = {}
UsedAll(mi) == UNION {Vars(a.e) : a \in OfKind(mi, "assign")}
EverySymbolDefined(mi) == UsedAll(mi) \subseteq mi.def \cup TimeNames
\* acyclic: repeatedly remove assignments all of whose assignment-dependencies are removed
\* (defined over the atoms, so that it is meaningful for ill-formed texts with repeated names too)
RECURSIVE Peel(_,_)
Peel(mi, left) == LET ready == {a \in left : Vars(a.e) \cap {b.name : b \in left} = {}} IN
                  IF ready = {} THEN left ELSE Peel(mi, left \ ready)
Acyclic(mi) == Peel(mi, OfKind(mi, "assign")) = {}
WellFormed(mi) == /\ NoDifferingDefinitions(mi) /\ EveryStateHasDerivative(mi) /\ EveryDerivativeHasState(mi)
                  /\ DeclaredValuesClosed(mi) /\ EverySymbolDefined(mi) /\ Acyclic(mi)

\* ---------------------------------------------------------------------------
\* the loader, stage by stage (first failing stage gives the outcome)
\* TreeToODE.ode + tree2parameter (declared values are built without a symbol table)
TransformOutcome(mi) ==
  IF ~DeclaredValuesClosed(mi) THEN "MissingSymbolError"
  ELSE IF ~NoDifferingDefinitions(mi) THEN "DuplicateSymbolError"
  ELSE "ok"
\* Component._handle_assignments: d<X>_dt needs state X in the same component
ClassifyOutcome(mi) == IF ~EveryDerivativeHasState(mi) THEN "StateNotFoundInComponent" ELSE "ok"
\* make_ode: check_components, duplicates, resolve_expressions
MakeOdeOutcome(mi) ==
  IF ~EveryStateHasDerivative(mi) THEN "ComponentNotCompleteError"
  ELSE IF ~EverySymbolDefined(mi) THEN "MissingSymbolError"
  ELSE "ok"
LoadOutcome(mi) ==
  IF TransformOutcome(mi) # "ok" THEN TransformOutcome(mi)
  ELSE IF ClassifyOutcome(mi) # "ok" THEN ClassifyOutcome(mi)
  ELSE MakeOdeOutcome(mi)

\* ---------------------------------------------------------------------------
\* sort_assignments
Deps(mi, n) == Vars(mi.ex[n])
AddOrder(mi) == SortByName(mi.iN) \o SortByName(mi.dN)
AllNodes(mi) == mi.aN \cup mi.used
CanonSched(mi) == [n \in mi.aN |-> SortByName(Deps(mi, n))]
Sorter(mi, sched) == GAddAll(GEmpty(AllNodes(mi)), AddOrder(mi), sched)
SortOutcome(mi, sched) == IF GHasCycle(Sorter(mi, sched)) THEN "CycleError" ELSE "ok"
FullOrder(mi, sched) == SelectSeq(GStaticOrder(Sorter(mi, sched)), LAMBDA n : n \in mi.aN)

\* ODE.dependents(): names mentioned by some assignment
HasDependents(mi, n) == n \in mi.used

\* ---------------------------------------------------------------------------
\* layout: the index maps (computed once) and the full emission order
Layout(mi, sched) ==
  LET order == FullOrder(mi, sched)
      ds == SelectSeq(order, LAMBDA n : n \in mi.dN)
  IN [order |-> order,
      state |-> [i \in 1..Len(ds) |-> StateOfDName(ds[i])],
      param |-> SortByName(mi.pN),
      monitor |-> order,
      missing |-> SortByName(mi.missing)]
\* sorted_assignments(remove_unused): the full order with unused intermediates filtered out
EmitOrder(mi, L, removeUnused) ==
  IF ~removeUnused THEN L.order
  ELSE SelectSeq(L.order, LAMBDA n : n \in mi.dN \/ HasDependents(mi, n))

\* ---------------------------------------------------------------------------
\* emitted functions as statement lists
\*   [k |-> "unpackS"|"unpackP"|"unpackM", name, slot]     name = array[slot]
\*   [k |-> "def", name, e]                                 name = e
\*   [k |-> "store", slot, e]                               values[slot] = e
SUnpack(k, name, slot) == [k |-> k, name |-> name, slot |-> slot]
SDef(name, e) == [k |-> "def", name |-> name, e |-> e]
SStore(slot, e) == [k |-> "store", slot |-> slot, e |-> e]

UnpackStates(mi, L, filter) ==
  LET keep == SelectSeq(L.state, LAMBDA s : ~filter \/ HasDependents(mi, s))
  IN [i \in 1..Len(keep) |-> SUnpack("unpackS", keep[i], SlotIn(L.state, keep[i]))]
UnpackParams(mi, L, filter) ==
  LET keep == SelectSeq(L.param, LAMBDA p : ~filter \/ HasDependents(mi, p))
  IN [i \in 1..Len(keep) |-> SUnpack("unpackP", keep[i], SlotIn(L.param, keep[i]))]
UnpackMissing(L) == [i \in 1..Len(L.missing) |-> SUnpack("unpackM", L.missing[i], i - 1)]

\* CodeGenerator.rhs
RECURSIVE RhsBody(_,_,_)
RhsBody(mi, L, order) == IF order = <<>> THEN <<>> ELSE
  LET n == Head(order) IN
  <<SDef(n, mi.ex[n])>>
  \o (IF n \in mi.dN THEN <<SStore(SlotIn(L.state, StateOfDName(n)), Var(n))>> ELSE <<>>)
  \o RhsBody(mi, L, Tail(order))
EmitRhs(mi, L, ru) ==
  [name |-> "rhs", nret |-> Len(L.state),
   stmts |-> UnpackStates(mi, L, ru) \o UnpackParams(mi, L, ru) \o UnpackMissing(L)
             \o RhsBody(mi, L, EmitOrder(mi, L, ru))]

\* CodeGenerator.monitor_values: all states, every assignment, store into monitor slots
RECURSIVE MonBody(_,_,_)
MonBody(mi, L, order) == IF order = <<>> THEN <<>> ELSE
  LET n == Head(order) IN
  <<SDef(n, mi.ex[n]), SStore(SlotIn(L.monitor, n), Var(n))>> \o MonBody(mi, L, Tail(order))
EmitMonitor(mi, L, ru) ==
  [name |-> "monitor_values", nret |-> Len(L.monitor),
   stmts |-> UnpackStates(mi, L, FALSE) \o UnpackParams(mi, L, ru) \o UnpackMissing(L)
             \o MonBody(mi, L, L.order)]

\* CodeGenerator.missing_values(values): requested name -> slot; states / parameters first, then the
\* assignments in order, stopping as soon as every requested value has been stored
RECURSIVE MissValBody(_,_,_,_,_)
MissValBody(mi, req, order, n, acc) ==
  IF order = <<>> \/ n >= Cardinality(DOMAIN req) THEN acc ELSE
  LET x == Head(order)
      st == IF x \in DOMAIN req THEN <<SStore(req[x], Var(x))>> ELSE <<>>
  IN MissValBody(mi, req, Tail(order), n + Len(st), acc \o <<SDef(x, mi.ex[x])>> \o st)
EmitMissingValues(mi, L, ru, req) ==
  LET sp == SortByName(mi.sN) \o SortByName(mi.pN)
      direct == SelectSeq(sp, LAMBDA x : x \in DOMAIN req)
      pre == [i \in 1..Len(direct) |-> SStore(req[direct[i]], Var(direct[i]))]
  IN [name |-> "missing_values", nret |-> Cardinality(DOMAIN req),
      stmts |-> UnpackStates(mi, L, FALSE) \o UnpackParams(mi, L, ru) \o UnpackMissing(L)
                \o pre \o MissValBody(mi, req, L.order, Len(pre), <<>>)]

\* schemes.py
Dt == Var("dt")
EulerUpdate(s, d) == Bn("add", Var(s), Bn("mul", Dt, Var(d)))
RLTerm(d, lin) == Bn("mul", Bn("div", Var(d), Var(lin)), Bn("sub", Fn("exp", Bn("mul", Var(lin), Dt)), One))
\* delta is an AST literal
RLUpdate(s, d, lin, delta) ==
  Bn("add", Var(s), Cond(Rel("Gt", Fn("abs", Var(lin)), delta), RLTerm(d, lin), Bn("mul", Dt, Var(d))))
\* "expr_diff.is_zero": the rate does not mention its own state
DiffIsZero(mi, d) == StateOfDName(d) \notin Vars(mi.ex[d])

RECURSIVE SchemeBody(_,_,_,_,_,_)
SchemeBody(mi, L, order, scheme, stiff, delta) == IF order = <<>> THEN <<>> ELSE
  LET n == Head(order)
      rest == SchemeBody(mi, L, Tail(order), scheme, stiff, delta)
  IN IF n \notin mi.dN THEN <<SDef(n, mi.ex[n])>> \o rest ELSE
     LET s == StateOfDName(n)
         slot == SlotIn(L.state, s)
         useRL == /\ scheme \in {"generalized_rush_larsen", "hybrid_rush_larsen"}
                  /\ (scheme = "generalized_rush_larsen" \/ s \in stiff)
                  /\ ~DiffIsZero(mi, n)
     IN IF ~useRL THEN <<SDef(n, mi.ex[n]), SStore(slot, EulerUpdate(s, n))>> \o rest
        ELSE <<SDef(n, mi.ex[n]), SDef(LinName(n), Diff(mi.ex[n], s)),
               SStore(slot, RLUpdate(s, n, LinName(n), delta))>> \o rest
EmitScheme(mi, L, ru, scheme, stiff, delta) ==
  [name |-> scheme, nret |-> Len(L.state),
   stmts |-> UnpackStates(mi, L, FALSE) \o UnpackParams(mi, L, ru) \o UnpackMissing(L)
             \o SchemeBody(mi, L, EmitOrder(mi, L, ru), scheme, stiff, delta)]

\* ---------------------------------------------------------------------------
\* execution of an emitted function: one flat namespace
\* input = [t, dt, states: name -> value, params: name -> value, missing: name -> value]
\* the caller fills the arrays through the layout (index functions)
Bind(env, n, v) == [x \in DOMAIN env \cup {n} |-> IF x = n THEN v ELSE env[x]]
RECURSIVE ExecStmts(_,_,_,_,_)
ExecStmts(stmts, env, vals, L, inp) == IF stmts = <<>> THEN vals ELSE
  LET s == Head(stmts) IN
  CASE s.k = "unpackS" -> ExecStmts(Tail(stmts), Bind(env, s.name, inp.states[L.state[s.slot + 1]]), vals, L, inp)
    [] s.k = "unpackP" -> ExecStmts(Tail(stmts), Bind(env, s.name, inp.params[L.param[s.slot + 1]]), vals, L, inp)
    [] s.k = "unpackM" -> ExecStmts(Tail(stmts), Bind(env, s.name, inp.missing[L.missing[s.slot + 1]]), vals, L, inp)
    [] s.k = "def"     -> ExecStmts(Tail(stmts), Bind(env, s.name, ToNum(Eval(s.e, env, TRUE))), vals, L, inp)
    [] s.k = "store"   -> ExecStmts(Tail(stmts), env, Bind(vals, s.slot, ToNum(Eval(s.e, env, TRUE))), L, inp)
\* returns slot -> value (slots never stored are absent)
Exec(fn, L, inp) == ExecStmts(fn.stmts, [x \in {"t", "dt"} |-> IF x = "t" THEN inp.t ELSE inp.dt], <<>>, L, inp)
\* results by name through the index maps
ByNames(order, vals) == [n \in SeqSet(order) |->
                           IF SlotIn(order, n) \in DOMAIN vals THEN vals[SlotIn(order, n)] ELSE U("slot-not-stored")]

\* ---------------------------------------------------------------------------
\* the meaning of a model: value of every name at an input, by expansion of definitions.
\* DenAll computes the values of all assignments bottom-up (well founded for acyclic models).
RECURSIVE DenFill(_,_,_)
DenFill(mi, env, left) ==
  LET ready == {n \in left : (Vars(mi.ex[n]) \ TimeNames) \subseteq DOMAIN env} IN
  IF ready = {} THEN env
  ELSE DenFill(mi, [x \in DOMAIN env \cup ready |->
                      IF x \in DOMAIN env THEN env[x] ELSE ToNum(Eval(mi.ex[x], env, TRUE))], left \ ready)
DenAll(mi, inp) ==
  LET base == [x \in {"t"} \cup mi.sN \cup mi.pN \cup DOMAIN inp.missing |->
                 IF x = "t" THEN inp.t ELSE IF x \in mi.sN THEN inp.states[x]
                 ELSE IF x \in mi.pN THEN inp.params[x] ELSE inp.missing[x]]
  IN DenFill(mi, base, mi.aN)

\* derivative of the rate of state s with respect to s itself, everything else held fixed
RateSlope(mi, s, den) == ToNum(Eval(Diff(mi.ex[DName(s)], s), den, TRUE))
DenEulerV(x, dtv, f) == Arith("add", x, Arith("mul", dtv, f))
\* generalized Rush-Larsen reference  x + (f/g)(exp(g dt) - 1)  if |g| > delta, else the Euler step.
\* Which branch is taken is decided here (the slope must be rational, else the case is dropped);
\* exp(q) at a rational q # 0 is a residual leaf.
ExpV(v) == IF IsU(v) THEN v ELSE IF IsQ(v) THEN Fn1("exp", v) ELSE Res1("exp", v)
DenGRLV(x, dtv, f, g, deltaV) ==
  IF IsU(f) THEN f ELSE IF IsU(g) THEN g
  ELSE IF ~IsQ(g) THEN U("residual-slope")
  ELSE IF QEq(QAbs(g), deltaV) /\ ~(g.ex /\ deltaV.ex) THEN U("fragile-tie")   \* float rounding may fall on either side
  ELSE IF QLe(QAbs(g), deltaV) THEN DenEulerV(x, dtv, f)
  ELSE Arith("add", x, Arith("mul", Arith("div", f, g), Arith("sub", ExpV(Arith("mul", g, dtv)), QOne)))
DenEuler(mi, inp) == LET den == DenAll(mi, inp) IN
  [s \in mi.sN |-> DenEulerV(inp.states[s], inp.dt, den[DName(s)])]
DenGRL(mi, inp, deltaV, stiff) == LET den == DenAll(mi, inp) IN
  [s \in mi.sN |-> IF s \in stiff /\ s \in Vars(mi.ex[DName(s)])      \* a rate without its own state: g is identically zero
                   THEN DenGRLV(inp.states[s], inp.dt, den[DName(s)], RateSlope(mi, s, den), deltaV)
                   ELSE DenEulerV(inp.states[s], inp.dt, den[DName(s)])]

\* equality of observations up to the reason of undefinedness
SameVal(a, b) == (IsU(a) /\ IsU(b)) \/ a = b
SameVals(f, g) == DOMAIN f = DOMAIN g /\ \A k \in DOMAIN f : SameVal(f[k], g[k])

\* ---------------------------------------------------------------------------
\* observations on emitted functions
StoreIdx(fn) == {j \in 1..Len(fn.stmts) : fn.stmts[j].k = "store"}
StoreSlots(fn) == {fn.stmts[j].slot : j \in StoreIdx(fn)}
StoreCount(fn) == Cardinality(StoreIdx(fn))
LengthsOk(fn) == StoreCount(fn) = fn.nret /\ StoreSlots(fn) = 0..(fn.nret - 1)

\* names a statement reads / writes
UsesOf(s) == IF s.k \in {"def", "store"} THEN Vars(s.e) ELSE {}
DefsOf(s) == IF s.k \in {"unpackS", "unpackP", "unpackM", "def"} THEN {s.name} ELSE {}
Formals == {"t", "time", "dt"}
NoUseBeforeDef(fn) ==
  \A i \in 1..Len(fn.stmts) :
     UsesOf(fn.stmts[i]) \subseteq Formals \cup UNION {DefsOf(fn.stmts[j]) : j \in 1..(i - 1)}
=============================================================================
