------------------------------ MODULE MC_File ------------------------------
(***************************************************************************)
(* Token strings at FILE level (OdeFile.tla): every sequence of up to      *)
(* MaxItems statements from a menu (declaration blocks with and without    *)
(* component names and ScalarParam annotations, headers with one or two    *)
(* names, assignments with and without a trailing comment, comment lines), *)
(* and, for a hashed share of them, every single-token mutation (a token   *)
(* deleted, inserted, replaced, two neighbours swapped) - the near misses  *)
(* of the grammar.                                                         *)
(*                                                                         *)
(* L1 (checked by TLC on every string):                                    *)
(*   File_CommentsInert   an accepted string stays accepted, with the same *)
(*                        model, when all its comments are removed (C17)   *)
(*   File_ScopeIsHeader   every assignment belongs to exactly the          *)
(*                        components of the nearest header above it that   *)
(*                        no declaration block separates from it (C17/C10) *)
(*   File_AcceptedIsWellFormed  what the staged loader accepts is well     *)
(*                        formed (C08, on arbitrary token strings)         *)
(* L2: each emitted string is written as text twice - on one line (only a  *)
(* comment ends a line) and with every token on its own line - and given   *)
(* to the real loader: same accept / reject verdict as the specification,  *)
(* the same verdict for both writings, the same components, and for loaded *)
(* models the same numbers.                                                *)
(***************************************************************************)
EXTENDS OdeFile, TLC, Json

CONSTANTS MaxItems,    \* statements per base string
          MutMod,      \* mutate the base strings whose hash is 0 modulo MutMod (0 = none)
          EmitMutMod,  \* emit one mutated string out of EmitMutMod
          SeedEmitMod  \* emit one mutation out of SeedEmitMod of the complete models (Seeds)

NumLexDef == [t \in {"1", "2", "3", "0.5"} |-> CASE t = "0.5" -> <<1, 2>> [] t = "1" -> <<1, 1>> [] t = "2" -> <<2, 1>> [] t = "3" -> <<3, 1>>]
NameOrderDef == <<"dx_dt", "dy_dt", "p", "t", "u", "x", "y">>
StrToksDef == {"$A", "$B", "$mV", "$d"}
CommentToksDef == {"#c", "#mV"}

Menu == <<
  <<"states", "(", "x", "=", "1", ",", "y", "=", "2", ")">>,
  <<"states", "(", "$A", ",", "x", "=", "1", ")">>,
  <<"states", "(", "$A", ",", "$B", ",", "y", "=", "ScalarParam", "(", "2", ",", "unit", "=", "$mV", ",", "description", "=", "$d", ")", ")">>,
  <<"states", "(", "$B", ",", "y", "=", "ScalarParam", "(", "0.5", ",", "unit", "=", "$mV", ")", ")">>,
  <<"parameters", "(", "p", "=", "3", ")">>,
  <<"parameters", "(", "$B", ",", "p", "=", "0.5", ")">>,
  <<"dx_dt", "=", "p", "-", "x">>,
  <<"dy_dt", "=", "u", "*", "y">>,
  <<"dy_dt", "=", "-", "y", "#c">>,
  <<"u", "=", "(", "p", "+", "1", ")", "#mV">>,
  <<"expressions", "(", "$A", ")">>,
  <<"expressions", "(", "$A", ",", "$B", ")", "#c">>,
  <<"component", "(", "$B", ")">>,
  <<"#c">>,
  <<"parameters", "(", "$A", ",", "p", "=", "3", ")">> >>
Alphabet == {"states", "parameters", "expressions", "(", ")", ",", "=", "$A", "x", "u", "1", "#c", "+", "ScalarParam", "unit", "dx_dt"}

\* complete, loadable models (every mutation of these is explored: the near misses of a valid file)
Seeds == { <<1, 5, 7, 8, 10>>,                 \* one anonymous component
           <<2, 4, 6, 11, 7, 13, 9>>,          \* two named components, a parameter read across, comments
           <<3, 5, 12, 9>>,                    \* a state that belongs to two components, a header with two names
           <<10, 14, 7, 9, 1, 5>>,             \* assignments first (use before definition), declarations last
           <<2, 15, 5, 11, 7>> }               \* one parameter declared identically in the blocks of two components

VARIABLES items, pc, mut
vars == <<items, pc, mut>>
NoMut == [k |-> "none", i |-> 0, t |-> ""]

RECURSIVE Flat(_)
Flat(is) == IF is = <<>> THEN <<>> ELSE Menu[Head(is)] \o Flat(Tail(is))
Base == Flat(items)
Apply(s, m) ==
  CASE m.k = "none" -> s
    [] m.k = "delete" -> SubSeq(s, 1, m.i - 1) \o SubSeq(s, m.i + 1, Len(s))
    [] m.k = "insert" -> SubSeq(s, 1, m.i - 1) \o <<m.t>> \o SubSeq(s, m.i, Len(s))
    [] m.k = "replace" -> [s EXCEPT ![m.i] = m.t]
    [] m.k = "swap" -> [j \in 1..Len(s) |-> IF j = m.i THEN s[m.i + 1] ELSE IF j = m.i + 1 THEN s[m.i] ELSE s[j]]
Tokens == Apply(Base, mut)
Mutations(s) == {[k |-> "delete", i |-> i, t |-> ""] : i \in 1..Len(s)}
           \cup {[k |-> "insert", i |-> i, t |-> t] : i \in 1..(Len(s) + 1), t \in Alphabet}
           \cup {[k |-> "replace", i |-> i, t |-> t] : i \in 1..Len(s), t \in Alphabet}
           \cup {[k |-> "swap", i |-> i, t |-> ""] : i \in 1..(Len(s) - 1)}

RECURSIVE HashI(_)
HashI(is) == IF is = <<>> THEN 7 ELSE (HashI(Tail(is)) * 31 + Head(is) * 17 + 3) % 100003
Init == items = <<>> /\ pc = "build" /\ mut = NoMut
AddItem == /\ pc = "build" /\ Len(items) < MaxItems
           /\ \E it \in 1..Len(Menu) : items' = Append(items, it)
           /\ UNCHANGED <<pc, mut>>
Finish == pc = "build" /\ items # <<>> /\ pc' = "base" /\ UNCHANGED <<items, mut>>
UseSeed == pc = "build" /\ items = <<>> /\ \E sd \in Seeds : items' = sd /\ pc' = "base" /\ UNCHANGED mut
Mutate == /\ pc = "base" /\ ((MutMod > 0 /\ HashI(items) % MutMod = 0) \/ items \in Seeds)
          /\ \E m \in Mutations(Base) : mut' = m
          /\ pc' = "mutated" /\ UNCHANGED items
Next == AddItem \/ Finish \/ UseSeed \/ Mutate
Spec == Init /\ [][Next]_vars
Complete == pc \in {"base", "mutated"}

\* ---------------------------------------------------------------------------
Parsed == PFile(Tokens)
ModelM == [blocks |-> CoreBlocks(Parsed.blocks)]
MI == Info(ModelM)
Outcome == IF ~Parsed.ok THEN "syntax"
           ELSE IF MI.sN = {} THEN "no-states"            \* nothing to generate code for: outside every property
           ELSE IF LoadOutcome(MI) # "ok" THEN LoadOutcome(MI)
           ELSE SortOutcome(MI, CanonSched(MI))

File_CommentsInert == Complete => (Parsed.ok => LET q == PFile(StripComments(Tokens)) IN q.ok /\ CoreBlocks(q.blocks) = CoreBlocks(Parsed.blocks))

\* the scope rule, stated on the token string itself: walking the significant tokens, `cur` is the list of
\* component names of the last header that no declaration block has ended
\* (a keyword is a keyword only where a statement can start: not after "=", "," "(" or an operator)
RECURSIVE ScopeAt(_,_,_,_)
ScopeAt(s, k, cur, prev) ==       \* components in force at token position k (1-based) of s
  IF k <= 1 \/ s = <<>> THEN cur ELSE
  LET h == Head(s)
      canStart == prev \notin OpenToks \cup {"("} IN
  IF h \in BlockKw /\ canStart THEN ScopeAt(Tail(s), k - 1, <<>>, h)
  ELSE IF h \in HeadKw /\ canStart /\ Len(s) >= 2 /\ s[2] = "(" THEN
       LET hd == PHeader(Tail(s)) IN ScopeAt(Tail(s), k - 1, IF hd.ok THEN hd.comps ELSE cur, h)
  ELSE ScopeAt(Tail(s), k - 1, cur, h)
\* positions of top-level assignment starts: NAME "=" at parenthesis depth 0 that is not a keyword argument
RECURSIVE DepthAt(_,_)
DepthAt(s, k) == IF k <= 1 THEN 0 ELSE DepthAt(s, k - 1) + (IF s[k - 1] = "(" THEN 1 ELSE IF s[k - 1] = ")" THEN -1 ELSE 0)
File_ScopeIsHeader == Complete => (Parsed.ok =>
   LET s == Significant(Tokens) IN
   \A k \in 1..(Len(s) - 1) : (IsName(s[k]) /\ s[k + 1] = "=" /\ DepthAt(s, k) = 0) =>
       LET want == IF ScopeAt(s, k, <<>>, "") = <<>> THEN {""} ELSE SeqSet(ScopeAt(s, k, <<>>, ""))
           have == {b.comp : b \in {bb \in SeqSet(Parsed.blocks) : bb.k = "expressions" /\ \E j \in 1..Len(bb.entries) : bb.entries[j].name = s[k]}}
       IN want \subseteq have)
File_AcceptedIsWellFormed == Complete => (Outcome = "ok" => WellFormed(MI))

\* ---------------------------------------------------------------------------
Toks(e) == Render(e, "min")
RECURSIVE BlocksJson(_)
BlocksJson(bs) == IF bs = <<>> THEN <<>> ELSE
   <<[k |-> Head(bs).k, comp |-> Head(bs).comp,
      entries |-> [j \in 1..Len(Head(bs).entries) |->
                     [name |-> Head(bs).entries[j].name, toks |-> Toks(Head(bs).entries[j].e),
                      unit |-> Head(bs).entries[j].unit, desc |-> Head(bs).entries[j].desc]]]>>
   \o BlocksJson(Tail(bs))
Input == [t |-> Q(1, 2), dt |-> Q(1, 8), states |-> [x |-> Q(3, 2), y |-> Q(-1, 4)], params |-> [p |-> Q(3, 1)], missing |-> <<>>]
Expectation == LET den == DenAll(MI, [Input EXCEPT !.states = [n \in MI.sN |-> Input.states[n]], !.params = [n \in MI.pN |-> Q(3, 1)]])
               IN [rhs |-> [s \in MI.sN |-> den[DName(s)]], monitor |-> [n \in MI.aN |-> den[n]]]
Record == [toks |-> Tokens, mut |-> mut, items |-> items, parse |-> Parsed.ok, outcome |-> Outcome,
           membership |-> IF Parsed.ok THEN {[name |-> a.name, kind |-> a.kind, comp |-> a.comp] : a \in MI.atoms} ELSE {},
           blocks |-> IF Outcome = "ok" THEN BlocksJson(Parsed.blocks) ELSE <<>>,
           expect |-> IF Outcome = "ok" THEN Expectation ELSE [rhs |-> <<>>, monitor |-> <<>>]]
EmitBase == pc = "base" => PrintT(ToJson(Record))
MutIdx == mut.i * 37 + (CASE mut.k = "delete" -> 1 [] mut.k = "insert" -> 2 [] mut.k = "replace" -> 3 [] OTHER -> 4) * 11 + Len(Tokens) * 5
EmitMut == (pc = "mutated" /\ IF items \in Seeds THEN SeedEmitMod > 0 /\ (MutIdx + Len(mut.t) * 3) % SeedEmitMod = 0
                                ELSE EmitMutMod > 0 /\ (HashI(items) + MutIdx + Len(mut.t) * 3) % EmitMutMod = 0) => PrintT(ToJson(Record))
=============================================================================
