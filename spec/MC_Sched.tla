------------------------------ MODULE MC_Sched ------------------------------
(***************************************************************************)
(* C09, the "schedules" quantifier on a CONCRETE model: given the          *)
(* dependency structure of a model recorded from the real loader, explore  *)
(* the orders in which each dependency set may be iterated into the        *)
(* topological sorter and check that the derivative order (= state slot    *)
(* layout) and the assignment order (= monitor layout) do not depend on    *)
(* them.  Used when the recorded executions show that the implementation   *)
(* iterates dependency sets in an order that varies between processes:     *)
(* the specification then decides whether the variation can reach the      *)
(* layout, instead of leaving that to luck with hash seeds.                *)
(* Input (JSON, file named by the environment variable MODEL_FILE):        *)
(*   add_order: assignment names in the order they are added               *)
(*   deps:      name -> dependencies in canonical (sorted) order            *)
(*   derivs:    derivative names                                            *)
(***************************************************************************)
EXTENDS Graphlib, TLC, Json, IOUtils, SequencesExt

Model == JsonDeserialize(IOEnv.MODEL_FILE)
AddOrder == Model.add_order
Assign == SeqSet(AddOrder)
Canon == [n \in Assign |-> Model.deps[n]]
AllNames == Assign \cup UNION {SeqSet(Model.deps[n]) : n \in Assign}
Derivs == SeqSet(Model.derivs)

\* iteration orders considered for a dependency sequence: all permutations when it is short,
\* otherwise the sorted order, its reverse and its rotations
Rot(s, k) == [i \in 1..Len(s) |-> s[((i + k - 1) % Len(s)) + 1]]
Orders(s) == IF Len(s) <= 1 THEN {s}
             ELSE IF Len(s) <= 4 THEN {p \in [1..Len(s) -> SeqSet(s)] : \A a, b \in 1..Len(s) : a # b => p[a] # p[b]}
             ELSE {Rot(s, k) : k \in 0..(Len(s) - 1)} \cup {Reverse(s)}

VARIABLES i, sched
Init == i = 1 /\ sched = <<>>
Pick == /\ i <= Len(AddOrder)
        /\ \E o \in Orders(Canon[AddOrder[i]]) : sched' = sched @@ (AddOrder[i] :> o)
        /\ i' = i + 1
Spec == Init /\ [][Pick]_<<i, sched>>
Done == i > Len(AddOrder)

OrderOf(s) == SelectSeq(StaticOrderOf(AllNames, AddOrder, s), LAMBDA n : n \in Assign)
DerivOrder(o) == SelectSeq(o, LAMBDA n : n \in Derivs)
CanonOrder == OrderOf(Canon)
C09_StateLayoutDeterministic == Done => DerivOrder(OrderOf(sched)) = DerivOrder(CanonOrder)
C09_MonitorLayoutDeterministic == Done => OrderOf(sched) = CanonOrder
=============================================================================
