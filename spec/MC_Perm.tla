------------------------------- MODULE MC_Perm -------------------------------
(***************************************************************************)
(* C10: the model does not depend on the order in which statements are     *)
(* written.  From every (sampled) structural model one permutation of the  *)
(* text: two blocks swapped, the block sequence reversed or rotated, two   *)
(* entries of a declaration block or two lines of an expressions block     *)
(* swapped, every block's entries reversed.  TLC checks that the model     *)
(* (atoms by kind, definitions, components) and the layout are unchanged;  *)
(* both texts are emitted for the replay (model equality, bytes, indices). *)
(***************************************************************************)
EXTENDS MC_Struct

CONSTANTS BaseMod, PermEmitMod

VARIABLES perm, pblocks, pmi
pvars == <<vars, perm, pblocks, pmi>>

Swap(s, a, b) == [j \in 1..Len(s) |-> IF j = a THEN s[b] ELSE IF j = b THEN s[a] ELSE s[j]]
Rev(s) == [j \in 1..Len(s) |-> s[Len(s) + 1 - j]]
Rotate(s) == IF s = <<>> THEN s ELSE Tail(s) \o <<Head(s)>>

Perms2(bs) ==
     {[kind |-> "swap-blocks", a |-> a, b |-> b] : a, b \in 1..Len(bs)}
  \cup {[kind |-> "reverse-blocks", a |-> 0, b |-> 0], [kind |-> "rotate-blocks", a |-> 0, b |-> 0],
        [kind |-> "reverse-entries", a |-> 0, b |-> 0]}
  \cup {[kind |-> "swap-entries", a |-> blk, b |-> en] : blk \in 1..Len(bs), en \in 1..3}
ApplyPerm(bs, p) ==
  CASE p.kind = "swap-blocks" -> Swap(bs, p.a, p.b)
    [] p.kind = "reverse-blocks" -> Rev(bs)
    [] p.kind = "rotate-blocks" -> Rotate(bs)
    [] p.kind = "reverse-entries" -> [j \in 1..Len(bs) |-> [bs[j] EXCEPT !.entries = Rev(@)]]
    [] p.kind = "swap-entries" -> [bs EXCEPT ![p.a].entries = IF Len(@) > p.b THEN Swap(@, p.b, p.b + 1) ELSE Rev(@)]
Valid(bs, p) == p.kind # "swap-blocks" \/ p.a < p.b
\* both texts may carry a comment line after every entry of an expressions block (C17: comment lines mean nothing,
\* so the permuted statements travel across them); "none" = no comment lines
Seps == {"none", "comments"}

PInit == Init /\ perm = None /\ pblocks = None /\ pmi = None
PChoose == Choose /\ UNCHANGED <<perm, pblocks, pmi>>
Permute == /\ pc = "done" /\ HashS % BaseMod = 0
           /\ LET bs == ModelOf(deps, layout).blocks IN
              \E p \in Perms2(bs), sp \in Seps : /\ Valid(bs, p) /\ perm' = [kind |-> p.kind, a |-> p.a, b |-> p.b, sep |-> sp]
                                    /\ pblocks' = ApplyPerm(bs, p)
                                    /\ pmi' = Info([blocks |-> pblocks'])
           /\ pc' = "permuted" /\ UNCHANGED <<deps, sched, i, layout, mi, lay>>
PNext == PChoose \/ Permute
PSpec == PInit /\ [][PNext]_pvars
Permuted == pc = "permuted"

\* in a split layout a header-less block would change component; every block of these models has its
\* component header or none has, so a permutation of blocks never re-scopes a line
C10_SameModel == Permuted => pmi = mi
C10_SameLayout == Permuted => Layout(pmi, CanonSched(pmi)) = lay
C10_StillAccepted == Permuted => (LoadOutcome(pmi) = "ok" /\ SortOutcome(pmi, CanonSched(pmi)) = "ok")

PHash == ((Hash2 % 10007) * 31 + 7919 * Len(perm.kind) + 3571 * perm.a + 1013 * perm.b + (IF perm.sep = "none" THEN 0 ELSE 104729)
          + (Hash \div BaseMod) * 17) % 100003
PEmit == (Permuted /\ PermEmitMod > 0 /\ PHash % PermEmitMod = 0) =>
   PrintT(ToJson([blocks |-> BlocksJson(ModelOf(deps, layout).blocks), pblocks |-> BlocksJson(pblocks), perm |-> perm]))
=============================================================================
