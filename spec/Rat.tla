------------------------------- MODULE Rat -------------------------------
(***************************************************************************)
(* Exact rational arithmetic and the value domain of the reference         *)
(* semantics of the gotranx model language.                                *)
(*                                                                         *)
(* Values are tagged records (TLC cannot compare records with strings):    *)
(*   [k |-> "q", n, d, ex]  rational n/d in lowest terms, d > 0;           *)
(*                          ex = "a float64 evaluation of this value from  *)
(*                          the inputs is exact" (dyadic, few bits)        *)
(*   [k |-> "b", v]         truth value                                    *)
(*   [k |-> "r", t]         residual (unevaluated) term: transcendental    *)
(*                          leaves are evaluated by the harness (mpmath)   *)
(*   [k |-> "u", why]       undefined / outside the domain / fragile       *)
(* TLC integers are 32 bit: every operation checks Bound on its result so  *)
(* that cross products stay below 2^31.                                    *)
(***************************************************************************)
EXTENDS Integers, Sequences, FiniteSets, TLC

Bound == 32767
AbsI(x) == IF x < 0 THEN -x ELSE x
RECURSIVE Gcd(_,_)
Gcd(a,b) == IF b = 0 THEN a ELSE Gcd(b, a % b)

U(why)     == [k |-> "u", why |-> why]
Qx(n,d,ex) == [k |-> "q", n |-> n, d |-> d, ex |-> ex]
Q(n,d)     == Qx(n, d, TRUE)
B(v)       == [k |-> "b", v |-> v]
R(t)       == [k |-> "r", t |-> t]
IsQ(v) == v.k = "q"
IsB(v) == v.k = "b"
IsR(v) == v.k = "r"
IsU(v) == v.k = "u"

RECURSIVE IsPow2(_)
IsPow2(d) == IF d = 1 THEN TRUE ELSE IF d % 2 # 0 THEN FALSE ELSE IsPow2(d \div 2)

\* normalise n/d; ex0 is the exactness of the operands, the result is exact
\* only if additionally its denominator is a power of two
Norm(n, d, ex0) ==
  IF d = 0 THEN U("div0") ELSE
  LET s  == IF d < 0 THEN -1 ELSE 1
      g  == Gcd(AbsI(n), AbsI(d))
      nn == (s*n) \div g
      dd == (s*d) \div g
  IN IF AbsI(nn) > Bound \/ dd > Bound THEN U("overflow")
     ELSE Qx(nn, dd, ex0 /\ IsPow2(dd))

QAdd(a,b) == Norm(a.n*b.d + b.n*a.d, a.d*b.d, a.ex /\ b.ex)
QSub(a,b) == Norm(a.n*b.d - b.n*a.d, a.d*b.d, a.ex /\ b.ex)
QMul(a,b) == Norm(a.n*b.n, a.d*b.d, a.ex /\ b.ex)
\* a quotient is float-exact (under any algebraic rewriting, e.g. a * (1/b)) only if the divisor is +-2^k
QDiv(a,b) == IF b.n = 0 THEN U("div0") ELSE Norm(a.n*b.d, a.d*b.n, a.ex /\ b.ex /\ IsPow2(AbsI(b.n)) /\ IsPow2(b.d))
QNeg(a)   == Qx(-a.n, a.d, a.ex)
QAbs(a)   == Qx(AbsI(a.n), a.d, a.ex)
QLt(a,b)  == a.n*b.d < b.n*a.d
QLe(a,b)  == a.n*b.d <= b.n*a.d
QEq(a,b)  == a.n = b.n /\ a.d = b.d
QIsInt(a) == a.d = 1
QZero     == Q(0,1)
QOne      == Q(1,1)
QSign(a)  == Qx(IF a.n > 0 THEN 1 ELSE IF a.n < 0 THEN -1 ELSE 0, 1, a.ex)

\* floor: TLC's \div floors for a positive divisor.  A non-exact operand that
\* sits exactly on an integer is fragile under float rounding.
QFloor(a) == IF QIsInt(a) /\ ~a.ex THEN U("fragile-floor") ELSE Qx(a.n \div a.d, 1, a.ex)
\* Mod with the sign of the divisor (Python / sympy):  a - b*floor(a/b)
QMod(a,b) == IF b.n = 0 THEN U("div0") ELSE
             LET q == QDiv(a,b) IN IF ~IsQ(q) THEN q ELSE
             IF QIsInt(q) /\ ~(a.ex /\ b.ex) THEN U("fragile-mod") ELSE
             LET f == Qx(q.n \div q.d, 1, TRUE)
                 m == QMul(b, f) IN IF ~IsQ(m) THEN m ELSE
             LET r == QSub(a, m) IN IF ~IsQ(r) THEN r ELSE Qx(r.n, r.d, a.ex /\ b.ex /\ r.ex)

RECURSIVE IPow(_,_)
IPow(a, e) == IF e = 0 THEN QOne ELSE LET r == IPow(a, e-1) IN IF ~IsQ(r) THEN r ELSE QMul(r, a)

RECURSIVE ISqrtFrom(_,_)
ISqrtFrom(n, i) == IF i*i = n THEN i ELSE IF i*i > n THEN -1 ELSE ISqrtFrom(n, i+1)
ISqrt(n) == IF n < 0 THEN -1 ELSE ISqrtFrom(n, 0)
IsSquare(a) == ISqrt(a.n) >= 0 /\ ISqrt(a.d) >= 0
QSqrt(a) == Qx(ISqrt(a.n), ISqrt(a.d), a.ex /\ IsPow2(ISqrt(a.d)))

MaxExp == 8
\* a ** e for rational a, e.  Integer exponents exactly; half-integer exponents of
\* perfect squares exactly; otherwise residual (a > 0) or undefined.
QPow(a, e) ==
   IF e.d = 1 THEN
      IF e.n >= 0 THEN (IF e.n > MaxExp THEN U("bigexp") ELSE IPow(a, e.n))
      ELSE IF a.n = 0 THEN U("div0") ELSE IF -e.n > MaxExp THEN U("bigexp") ELSE
           LET p == IPow(a, -e.n) IN IF ~IsQ(p) THEN p ELSE QDiv(QOne, p)
   ELSE IF a.n < 0 THEN U("complex")
   ELSE IF a.n = 0 THEN (IF e.n > 0 THEN QZero ELSE U("div0"))
   ELSE IF e.d = 2 /\ e.n \in {1, -1} /\ IsSquare(a) THEN
        (IF e.n = 1 THEN QSqrt(a) ELSE QDiv(QOne, QSqrt(a)))
   ELSE R([f |-> "pow", a |-> a, b |-> e])
=============================================================================
