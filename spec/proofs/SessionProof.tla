---------------------------- MODULE SessionProof ----------------------------
(***************************************************************************)
(* C09 "histories", unbounded: in the repaired design (get_scheme returns  *)
(* a renamed copy, Mutating = FALSE) the observation of a call is a        *)
(* function of the call alone after ANY number of calls - TLC checks this  *)
(* for histories up to MaxCalls, this module proves it with TLAPS for the  *)
(* specification without the bound.                                        *)
(*   tlapm --cleanfp SessionProof.tla                                      *)
(***************************************************************************)
EXTENDS SessionCore, TLAPS

CallRec == [call : {"get_scheme", "get_code", "scheme_direct"}, arg : Aliases \cup Funcs]

\* the specification without the bound on the number of calls
NextU == \/ \E a \in Aliases : GetScheme(a) \/ GetCode(a)
         \/ \E f \in Funcs : SchemeDirect(f)
SpecU == Init /\ [][NextU]_vars

TypeOK == /\ hist \in Seq(CallRec)
          /\ coName \in [Funcs -> Aliases \cup Funcs]
IndInv == /\ TypeOK
          /\ coName = [f \in Funcs |-> f]          \* the shared functions keep their names
          /\ C09_HistoryIndependent

LEMMA InitInv == Init => IndInv
  BY DEF Init, IndInv, TypeOK, C09_HistoryIndependent, Funcs, Aliases, AliasOf

LEMMA StepInv == ASSUME Mutating = FALSE PROVE IndInv /\ [NextU]_vars => IndInv'
<1> SUFFICES ASSUME Mutating = FALSE, IndInv, [NextU]_vars PROVE IndInv'
  OBVIOUS
<1>1. CASE \E a \in Aliases : GetScheme(a)
  <2> PICK a \in Aliases : GetScheme(a)
    BY <1>1
  <2> DEFINE c == [call |-> "get_scheme", arg |-> a]
  <2>1. c \in CallRec
    BY DEF CallRec
  <2>2. hist' = Append(hist, c) /\ out' = "" /\ coName' = coName
    BY DEF GetScheme
  <2>3. hist' \in Seq(CallRec) /\ hist' # <<>> /\ hist'[Len(hist')] = c
    BY <2>1, <2>2 DEF IndInv, TypeOK
  <2>4. Expected(c) = ""
    BY DEF Expected
  <2> QED
    BY <2>2, <2>3, <2>4 DEF IndInv, TypeOK, C09_HistoryIndependent
<1>2. CASE \E a \in Aliases : GetCode(a)
  <2> PICK a \in Aliases : GetCode(a)
    BY <1>2
  <2> DEFINE c == [call |-> "get_code", arg |-> a]
  <2>1. c \in CallRec
    BY DEF CallRec
  <2>2. hist' = Append(hist, c) /\ out' = a /\ coName' = coName
    BY DEF GetCode
  <2>3. hist' \in Seq(CallRec) /\ hist' # <<>> /\ hist'[Len(hist')] = c
    BY <2>1, <2>2 DEF IndInv, TypeOK
  <2>4. Expected(c) = a
    BY DEF Expected
  <2> QED
    BY <2>2, <2>3, <2>4 DEF IndInv, TypeOK, C09_HistoryIndependent
<1>3. CASE \E f \in Funcs : SchemeDirect(f)
  <2> PICK f \in Funcs : SchemeDirect(f)
    BY <1>3
  <2> DEFINE c == [call |-> "scheme_direct", arg |-> f]
  <2>1. c \in CallRec
    BY DEF CallRec
  <2>2. hist' = Append(hist, c) /\ out' = coName[f] /\ coName' = coName
    BY DEF SchemeDirect
  <2>3. hist' \in Seq(CallRec) /\ hist' # <<>> /\ hist'[Len(hist')] = c
    BY <2>1, <2>2 DEF IndInv, TypeOK
  <2>4. Expected(c) = f /\ coName[f] = f
    BY DEF Expected, IndInv
  <2> QED
    BY <2>2, <2>3, <2>4 DEF IndInv, TypeOK, C09_HistoryIndependent
<1>4. CASE UNCHANGED vars
  BY <1>4 DEF vars, IndInv, TypeOK, C09_HistoryIndependent
<1> QED
  BY <1>1, <1>2, <1>3, <1>4 DEF NextU

THEOREM C09_Unbounded == Mutating = FALSE => (SpecU => []C09_HistoryIndependent)
<1> SUFFICES ASSUME Mutating = FALSE PROVE SpecU => []C09_HistoryIndependent
  OBVIOUS
<1>1. SpecU => []IndInv
  BY InitInv, StepInv, PTL DEF SpecU
<1>2. IndInv => C09_HistoryIndependent
  BY DEF IndInv
<1> QED
  BY <1>1, <1>2, PTL
=============================================================================
