----------------------------- MODULE MC_Scheme -----------------------------
(***************************************************************************)
(* Rate templates for the Rush-Larsen schemes (C06, C07) and Euler (C05):  *)
(* the rate of state x as an expression in x itself (under + - * / **,     *)
(* exp, log, sqrt, abs, conditionals, ...), another state y and a          *)
(* parameter a.  For every template, delta and input (x, a, dt) the        *)
(* specification computes f, g = d(rate)/dx with its own differentiator,   *)
(* decides the guard |g| > delta and gives the step.  TLC also checks that *)
(* the operational scheme (EmitScheme executed in a flat namespace) equals *)
(* the reference on every template.                                        *)
(***************************************************************************)
EXTENDS Pipeline, Json

CONSTANTS Fam       \* template family 1..5

NumLexDef == [t \in {"0","1","2","3","0.5","0.25","4","8", "1e-8"} |->
                CASE t = "0.5" -> <<1,2>> [] t = "0.25" -> <<1,4>> [] t = "1e-8" -> <<0,1>>
                  [] t = "0" -> <<0,1>> [] t = "1" -> <<1,1>> [] t = "2" -> <<2,1>> [] t = "3" -> <<3,1>>
                  [] t = "4" -> <<4,1>> [] t = "8" -> <<8,1>>]
NameOrderDef == <<"a", "dx_dt", "dy_dt", "x", "y">>
N(tok) == NumOf(tok)
X == Var("x")  Y == Var("y")  A == Var("a")
Half == N("0.5")
GtC(l, r, a, b) == Cond(Rel("Gt", l, r), a, b)

AtomsX == { X, Bn("mul", X, X), Bn("div", One, X), Fn("exp", Neg(X)), Fn("log", X), Fn("sqrt", X), Fn("abs", X),
            GtC(X, One, Bn("mul", X, X), Bn("mul", Two, X)), Bn("pow", X, Two), Bn("div", X, Bn("add", X, A)), Y,
            Bn("pow", X, Neg(One)), Fn("sin", X), Fn("tan", Bn("div", X, Two)), Fn("atan", X), Bn("pow", Two, X),
            Fn("abs", Bn("sub", X, One)), GtC(Y, Zero, X, Neg(X)), Bn("div", X, A), Bn("mul", Bn("sub", X, One), Bn("sub", X, Two)) }
Coefs == { A, Neg(One), Half, Y, Bn("div", One, A) }
Fam1(c1) == { Bn("mul", c1, a1) : a1 \in AtomsX }
Fam2(c1) == { Bn("add", Bn("mul", c1, a1), Bn("mul", c2, a2)) : c2 \in {A, Neg(One)}, a1 \in AtomsX, a2 \in {X, Y, Fn("exp", Neg(X))} }
\* gating-variable shapes:  (inf - x)/tau,  alpha (1 - x) - beta x
Fam3 == { Bn("div", Bn("sub", inf, X), tau) : inf \in {A, Bn("div", One, Bn("add", One, Fn("exp", Neg(Y)))), Half},
                                                 tau \in {A, Two, Bn("add", One, Bn("mul", Y, Y)), Bn("div", One, A), N("8")} }
        \cup { Bn("sub", Bn("mul", al, Bn("sub", One, X)), Bn("mul", be, X)) : al \in {A, Half, Fn("exp", Y)}, be \in {A, Two, Bn("div", One, A)} }
        \cup { Bn("mul", Neg(g), Bn("sub", X, E0)) : g \in {A, Bn("div", One, A), N("0.25"), N("0")}, E0 \in {Y, One} }
        \cup { CCond("Gt", X, Y, Bn("mul", A, X), Neg(X), Two), CCond("Lt", Y, One, X, Bn("mul", X, X), Half) }
\* rates whose own-state slope vanishes or changes branch
Fam4 == { Y, A, Bn("add", Y, A), GtC(X, One, One, Two), Bn("mul", Zero, X), Bn("sub", X, X),
          GtC(X, One, Bn("mul", A, X), One), GtC(X, One, One, Bn("mul", A, X)),
          Bn("mul", N("0.25"), X), Bn("mul", Neg(N("0.25")), X), Bn("mul", N("0.5"), X), Bn("div", X, N("4")), Bn("div", X, N("8")),
          Bn("mul", Bn("div", One, N("4")), X), Bn("div", Neg(X), A), Bn("mul", Bn("div", One, A), X),
          Bn("mul", Bn("div", Half, X), Y), Bn("add", One, Bn("div", Half, X)) }

\* piecewise-constant / sawtooth functions of the own state (slope 0 resp. 1 almost everywhere)
Fam5 == { Bn("sub", A, Fn("floor", X)), Bn("sub", Mod(X, Two), X), Bn("mul", Bn("mul", A, Fn("floor", Bn("div", X, Two))), X),
          Bn("mul", Neg(Fn("floor", Y)), X), Bn("sub", Mod(Y, Two), X), Bn("mul", Mod(X, N("3")), X), Neg(Bn("mul", Fn("floor", X), X)) }
Templates(c1) == CASE Fam = 1 -> Fam1(c1)
                   [] Fam = 5 -> IF c1 = A THEN Fam5 ELSE {}
                   [] Fam = 2 -> Fam2(c1)
                   [] Fam = 3 -> IF c1 = A THEN Fam3 ELSE {}
                   [] Fam = 4 -> IF c1 = A THEN Fam4 ELSE {}

Xs == <<Q(3,2), Q(1,2), Q(-1,4), Q(0,1), Q(1,1), Q(2,1)>>
As == <<Q(3,1), Q(8,1), Q(1,4)>>
Dts == <<Q(1,8), Q(0,1), Q(-1,4), Q(4,1)>>
Yv == Q(-1,4)
Deltas == {"1e-8", "0.25", "1"}
DeltaVal(dl) == CASE dl = "1e-8" -> Q(0,1) [] dl = "0.25" -> Q(1,4) [] dl = "1" -> Q(1,1)

VARIABLES pc, c, e, dl, mi, lay
vars == <<pc, c, e, dl, mi, lay>>
None == [none |-> TRUE]
ModelOf(ex) == [blocks |-> << [k |-> "states", comp |-> "", entries |-> <<[name |-> "x", e |-> One], [name |-> "y", e |-> Half]>>],
                              [k |-> "parameters", comp |-> "", entries |-> <<[name |-> "a", e |-> Two]>>],
                              [k |-> "expressions", comp |-> "", entries |-> <<[name |-> "dx_dt", e |-> ex], [name |-> "dy_dt", e |-> One]>>] >>]
Init == pc = "c" /\ c = None /\ e = None /\ dl = "1e-8" /\ mi = None /\ lay = None
PickC == pc = "c" /\ c' \in Coefs /\ pc' = "e" /\ UNCHANGED <<e, dl, mi, lay>>
PickE == /\ pc = "e" /\ e' \in Templates(c) /\ dl' \in Deltas /\ pc' = "done" /\ c' = c
         /\ mi' = Info(ModelOf(e')) /\ lay' = Layout(mi', CanonSched(mi'))
Next == PickC \/ PickE
Spec == Init /\ [][Next]_vars
Done == pc = "done"

Inp(xi, ai, di) == [t |-> Q(0,1), dt |-> Dts[di], states |-> [x |-> Xs[xi], y |-> Yv], params |-> [a |-> As[ai]], missing |-> <<>>]
Grid == {<<xi, ai, di>> : xi \in 1..Len(Xs), ai \in 1..Len(As), di \in 1..Len(Dts)}
SmallGrid == {<<xi, ai, 1>> : xi \in {1, 3, 4}, ai \in {1, 2}}
DeltaAst == N(dl)

\* L1: the operational scheme refines the reference on every template
C06_GRL == Done => \A g \in SmallGrid : LET inp == Inp(g[1], g[2], g[3]) IN
     SameVals(ByNames(lay.state, Exec(EmitScheme(mi, lay, FALSE, "generalized_rush_larsen", {}, DeltaAst), lay, inp)),
       DenGRL(mi, inp, DeltaVal(dl), mi.sN))
C07_Hybrid == Done => \A g \in SmallGrid : \A stiff \in {{}, {"x"}, {"y", "zz"}} : LET inp == Inp(g[1], g[2], g[3]) IN
     SameVals(ByNames(lay.state, Exec(EmitScheme(mi, lay, FALSE, "hybrid_rush_larsen", stiff, DeltaAst), lay, inp)),
       DenGRL(mi, inp, DeltaVal(dl), stiff))
C05_Euler == Done => \A g \in SmallGrid : LET inp == Inp(g[1], g[2], g[3]) IN
     SameVals(ByNames(lay.state, Exec(EmitScheme(mi, lay, FALSE, "explicit_euler", {}, DeltaAst), lay, inp)), DenEuler(mi, inp))
\* corollaries of the formula, checked on the reference itself
\* dt = 0 returns the state; a rate that does not mention x gives the Euler step
C06_ZeroDt == Done => \A xi \in 1..Len(Xs), ai \in 1..Len(As) :
     LET inp == Inp(xi, ai, 2) v == DenGRL(mi, inp, DeltaVal(dl), {"x"})["x"] IN (IsQ(v) => QEq(v, Xs[xi]))
C06_NoSlopeIsEuler == Done => (DiffIsZero(mi, "dx_dt") => \A g \in SmallGrid :
     LET inp == Inp(g[1], g[2], g[3]) IN DenGRL(mi, inp, DeltaVal(dl), {"x"})["x"] = DenEuler(mi, inp)["x"])
WellTyped == Done => WTNum(e)

Emit == Done => PrintT(ToJson([toks |-> Render(e, "min"), delta |-> dl,
          grid |-> [g \in Grid |->
             LET inp == Inp(g[1], g[2], g[3]) den == DenAll(mi, inp) IN
             [f |-> den["dx_dt"], g |-> RateSlope(mi, "x", den),
              euler |-> DenEuler(mi, inp)["x"], grl |-> DenGRL(mi, inp, DeltaVal(dl), {"x"})["x"]]]]))
EmitHeader == pc = "c" => PrintT(ToJson([header |-> TRUE, xs |-> Xs, as |-> As, dts |-> Dts, y |-> Yv]))
=============================================================================
