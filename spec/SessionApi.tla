------------------------------ MODULE SessionApi ------------------------------
(***************************************************************************)
(* C09, "histories": a process that loads models and generates code        *)
(* repeatedly.  Live state in the implementation that outlives a call:     *)
(* the model objects (with their cached sorted tuples), the code generator *)
(* classes, the scheme functions, the sympy and lark caches.  The          *)
(* specification of the interface is that none of it is observable:        *)
(*   obs(call) is a function of the call alone                             *)
(* where a call is  Code(model, remove_unused, backend, with schemes)  on   *)
(* one of two models that share names (so that anything keyed by a name    *)
(* rather than by the model would leak),  Reload(model)  (save -> load and *)
(* continue with the new object) or  Split(model)  (to_ode / minus, code  *)
(* of both halves generated with argument objects - the requested missing  *)
(* values, the stiff states - that the client keeps and passes again), or  *)
(* Load(model)  (the model's TEXT is parsed again and replaces the live    *)
(* object; observed: the components of the loaded model and its code).     *)
(* m3 is written the other way round - assignments first, without a header,*)
(* declarations after them, one headed block at the end - so that whatever *)
(* a loader kept from the END of one text would meet the BEGINNING of the  *)
(* next.                                                                   *)
(* TLC enumerates every history up to MaxCalls; each is replayed in ONE    *)
(* process and every observation is compared with the same call made alone *)
(* in a fresh process.                                                     *)
(***************************************************************************)
EXTENDS Integers, Sequences, TLC, Json
CONSTANT MaxCalls

Models == {"m1", "m2", "m3"}
Calls == {[op |-> "code", m |-> m, ru |-> ru, be |-> be, sch |-> sch] : m \in Models, ru \in BOOLEAN, be \in {"numpy", "c"}, sch \in BOOLEAN}
         \cup {[op |-> "reload", m |-> m] : m \in Models} \cup {[op |-> "split", m |-> m] : m \in Models}
         \cup {[op |-> "load", m |-> m] : m \in Models}

VARIABLES hist, obs
vars == <<hist, obs>>
\* the abstract observation of a call: the call itself (its digest is looked up in the fresh-process reference)
ObsOf(c) == c
Init == hist = <<>> /\ obs = <<>>
Do(c) == hist' = Append(hist, c) /\ obs' = Append(obs, ObsOf(c))
Next == Len(hist) < MaxCalls /\ \E c \in Calls : Do(c)
Spec == Init /\ [][Next]_vars

C09_HistoryIndependent == \A i \in 1..Len(hist) : obs[i] = ObsOf(hist[i])
\* only histories that end in an observable call and contain at least two different models or options are interesting
Interesting == Len(hist) = MaxCalls /\ hist[Len(hist)].op \in {"code", "split", "load"} /\ \E i \in 1..(Len(hist) - 1) : hist[i] # hist[Len(hist)]
EmitHist == Interesting => PrintT(ToJson([hist |-> hist]))
=============================================================================
