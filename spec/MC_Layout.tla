------------------------------ MODULE MC_Layout ------------------------------
(***************************************************************************)
(* C17: comments, blank lines, indentation, line endings, line             *)
(* continuation and unit annotations are inert.  The text of a model is a  *)
(* sequence of LINES (header / entry / comment / blank); a decoration adds  *)
(* lines or trailing annotations that carry no meaning.  Strip removes     *)
(* them again; TLC checks that the meaning (model info, layout) of the     *)
(* decorated text is that of the plain one for every decoration, and emits *)
(* (model, decoration) pairs: the harness renders both texts and the real   *)
(* loader must give the same components, layout and numbers - and must     *)
(* neither fail nor hang.                                                  *)
(***************************************************************************)
EXTENDS MC_Struct

CONSTANTS BaseMod

Places == {"header", "between-blocks", "after-expressions-header", "inside-expressions", "trailing", "end-of-file",
           "blank-inside-expressions", "indent", "crlf", "continuation", "trailing-spaces", "tabs", "no-final-newline",
           "unit-annotation", "two-comments", "after-header-and-inside", "header-and-trailing",
           \* a comment (a blank line) after EVERY line of the text: a block is cut into as many segments as it has lines
           "comment-every-line", "blank-every-line", "comment-every-assignment",
           \* comments where no statement can end (they cannot annotate anything): between the entries of a states /
           \* parameters block written over several lines, inside a header, after an operator of a continued expression,
           \* inside a parenthesised sub-expression
           "inside-declaration", "inside-header", "comment-in-continuation", "comment-in-parentheses"}
\* index into the harness' table of comment strings (plain words, unit names, "1/0", "9**9**9", "x = 3", quotes, ...)
NStrings == 43
NeedsString(p) == p \in {"header", "between-blocks", "after-expressions-header", "inside-expressions", "trailing", "end-of-file", "two-comments",
                          "after-header-and-inside", "header-and-trailing", "comment-every-line", "comment-every-assignment",
                          "inside-declaration", "inside-header", "comment-in-continuation", "comment-in-parentheses"}

VARIABLES deco
dvars == <<vars, deco>>
\* lines of the plain text
Line(k, b, j) == [k |-> k, block |-> b, entry |-> j]
RECURSIVE LinesOf(_,_)
LinesOf(bs, b) == IF b > Len(bs) THEN <<>> ELSE
   <<Line("header", b, 0)>> \o [j \in 1..Len(bs[b].entries) |-> Line("entry", b, j)] \o LinesOf(bs, b + 1)
\* a decoration inserts meaningless lines; Strip removes them: the plain lines are recovered exactly
Decorated(ls, d) ==
  CASE d.place \in {"header"} -> <<Line("comment", 0, d.str)>> \o ls
    [] d.place \in {"end-of-file"} -> ls \o <<Line("comment", 0, d.str)>>
    [] d.place \in {"after-header-and-inside", "header-and-trailing"} ->     \* two decorations at once
         LET at == IF Len(ls) > 2 THEN 1 + (d.str % (Len(ls) - 1)) ELSE 1
         IN <<Line("comment", 0, d.str)>> \o SubSeq(ls, 1, at) \o <<Line("comment", 0, d.str)>> \o SubSeq(ls, at + 1, Len(ls))
    [] d.place \in {"between-blocks", "after-expressions-header", "inside-expressions", "two-comments", "blank-inside-expressions"} ->
         LET at == IF Len(ls) > 2 THEN 1 + (d.str % (Len(ls) - 1)) ELSE 1
         IN SubSeq(ls, 1, at) \o <<Line(IF d.place = "blank-inside-expressions" THEN "blank" ELSE "comment", 0, d.str)>> \o SubSeq(ls, at + 1, Len(ls))
    [] d.place \in {"comment-every-line", "blank-every-line"} ->
         LET RECURSIVE Inter(_)
             Inter(sq) == IF sq = <<>> THEN <<>> ELSE <<Head(sq), Line(IF d.place = "blank-every-line" THEN "blank" ELSE "comment", 0, d.str)>> \o Inter(Tail(sq))
         IN Inter(ls)
    [] d.place = "comment-every-assignment" ->
         LET RECURSIVE InterA(_)
             InterA(sq) == IF sq = <<>> THEN <<>> ELSE (IF Head(sq).k = "entry" THEN <<Head(sq), Line("comment", 0, d.str)>> ELSE <<Head(sq)>>) \o InterA(Tail(sq))
         IN InterA(ls)
    [] OTHER -> ls
Strip(ls) == SelectSeq(ls, LAMBDA l : l.k \in {"header", "entry"})

DInit == Init /\ deco = None
DChoose == Choose /\ UNCHANGED deco
LayoutIdx == CASE layout = "single" -> 0 [] layout = "split" -> 1 [] layout = "noparams" -> 2 [] layout = "headed" -> 19 [] layout = "mixed" -> 25 [] OTHER -> 3    \* headed: the same base structures as split (offsets 23 - 5 = 19 - 1)
Decorate == /\ pc = "done" /\ Hash % BaseMod = LayoutIdx
            /\ \E p \in Places : \E s \in (IF NeedsString(p) THEN 1..NStrings ELSE {0}) : deco' = [place |-> p, str |-> s]
            /\ pc' = "decorated" /\ UNCHANGED <<deps, sched, i, layout, mi, lay>>
DSpec == DInit /\ [][DChoose \/ Decorate]_dvars
IsDecorated == pc = "decorated"

PlainLines == LinesOf(ModelOf(deps, layout).blocks, 1)
C17_Inert == IsDecorated => Strip(Decorated(PlainLines, deco)) = PlainLines
DEmit == IsDecorated => PrintT(ToJson([blocks |-> BlocksJson(ModelOf(deps, layout).blocks), deco |-> deco,
                  delta |-> "0.25", names |-> NameOrder, comp_of |-> mi.cp,
                  \* the expectations belong to the plain model: emitted once per base model (with its "indent" decoration)
                  cases |-> IF deco.place = "indent" THEN [ii \in 1..Len(Inputs) |-> [input |-> InputJson(Inputs[ii]), expect |-> Expect(Inputs[ii])]]
                            ELSE <<>>]))
=============================================================================
