------------------------------ MODULE OdeFile ------------------------------
(***************************************************************************)
(* The FILE-LEVEL grammar of ode.lark as a recursive-descent parser from a *)
(* token string to the blocks of Pipeline.tla - the statement structure    *)
(* around the expression grammar of OdeText.tla:                           *)
(*                                                                         *)
(*   ode:         (parameters | states | expressions | comment)*           *)
(*   states:      "states" "(" (STRING ",")* param ("," param)* ")"        *)
(*   parameters:  "parameters" "(" (STRING ",")* param ("," param)* ")"    *)
(*   param:       NAME "=" expression                                      *)
(*              | NAME "=" "ScalarParam" "(" expression                    *)
(*                    ["," "unit" "=" STRING] ["," "description" "=" STRING] ")" *)
(*   expressions: assignment+                                              *)
(*              | ("expressions"|"component") "(" STRING ("," STRING)* ")" *)
(*                    comment* assignment+                                 *)
(*   assignment:  NAME "=" expression [comment]                            *)
(*                                                                         *)
(* Line structure: a newline is white space everywhere (a statement may be *)
(* continued on the next line and two statements may share a line); its    *)
(* only effect is to end a comment, so a comment is ONE token here.        *)
(*                                                                         *)
(* Comments (C17): a comment is white space wherever no statement can end  *)
(* - inside parentheses and after "=", "," or an operator (Significant     *)
(* removes it there); elsewhere it stands where the grammar has it:        *)
(* between statements, below a header, at the end of an assignment (where  *)
(* it may be read as a unit annotation, which carries no numerical         *)
(* meaning).  A comment never ends the scope of a header.                  *)
(*                                                                         *)
(* Scope (TreeToODE.ode): the strings of a header name the components of   *)
(* every entry of the block (an entry belongs to each of them); assignments*)
(* without a header belong to the components of the last headed            *)
(* expressions block, until a states / parameters block ends that scope;   *)
(* with no scope they belong to the component "".                          *)
(*                                                                         *)
(* Keywords are contextual exactly as in the implementation's lexer: the   *)
(* block keywords are keywords where a statement can start, "ScalarParam"  *)
(* directly after the "=" of a block entry, "unit" / "description" after a *)
(* "," inside ScalarParam( .. ); anywhere else they are identifiers.       *)
(***************************************************************************)
EXTENDS Pipeline

CONSTANTS StrToks,        \* string-literal tokens   ("A" is written $A here)
          CommentToks     \* comment tokens          (# c is written #c)

BlockKw == {"states", "parameters"}
HeadKw == {"expressions", "component"}
NonExpr(t) == t = "=" \/ t \in StrToks \/ t \in CommentToks
IsName(t) == IsIdent(t) /\ ~NonExpr(t)

\* ---------------------------------------------------------------------------
\* comments where no statement can end are white space
OpenToks == {"=", ",", "+", "-", "*", "/", "**", "~"}
RECURSIVE Sig(_,_,_)
Sig(s, depth, prev) ==
  IF s = <<>> THEN <<>> ELSE
  LET h == Head(s) IN
  IF h \in CommentToks THEN
       IF depth > 0 \/ prev \in OpenToks THEN Sig(Tail(s), depth, prev) ELSE <<h>> \o Sig(Tail(s), depth, prev)
  ELSE <<h>> \o Sig(Tail(s), IF h = "(" THEN depth + 1 ELSE IF h = ")" /\ depth > 0 THEN depth - 1 ELSE depth, h)
Significant(s) == Sig(s, 0, "")
StripComments(s) == SelectSeq(s, LAMBDA t : t \notin CommentToks)

\* ---------------------------------------------------------------------------
\* an expression inside a statement: the expression grammar never reads "=", a string or a comment; the name in
\* front of an "=" belongs to the next statement
FirstNonExpr(s) == IF \E i \in 1..Len(s) : NonExpr(s[i]) THEN CHOOSE i \in 1..Len(s) : NonExpr(s[i]) /\ \A j \in 1..(i - 1) : ~NonExpr(s[j])
                   ELSE Len(s) + 1
PExprF(s) ==
  LET k == FirstNonExpr(s)
      cut == IF k <= Len(s) /\ s[k] = "=" /\ k > 1 THEN k - 1 ELSE k
      r == PExpr(SubSeq(s, 1, cut - 1))
  IN IF ~r.ok THEN Fail ELSE Ok(r.ast, r.rest \o SubSeq(s, cut, Len(s)))

FFail == [ok |-> FALSE]
Expect(s, t) == s # <<>> /\ Head(s) = t

\* (STRING ",")*  ->  <<names, rest>>
RECURSIVE Comps(_,_)
Comps(s, acc) == IF Len(s) >= 2 /\ s[1] \in StrToks /\ s[2] = "," THEN Comps(Tail(Tail(s)), Append(acc, s[1])) ELSE <<acc, s>>

\* optional  "," kw "=" STRING
OptKw(s, kw) == IF Len(s) >= 4 /\ s[1] = "," /\ s[2] = kw /\ s[3] = "=" /\ s[4] \in StrToks
                THEN [present |-> TRUE, val |-> s[4], rest |-> SubSeq(s, 5, Len(s))]
                ELSE [present |-> FALSE, val |-> "", rest |-> s]

\* param -> [ok, name, e, unit, desc, rest]
PParam(s) ==
  IF ~(Len(s) >= 3 /\ IsName(s[1]) /\ s[2] = "=") THEN FFail ELSE
  LET v == SubSeq(s, 3, Len(s)) IN
  IF Expect(v, "ScalarParam") THEN
       IF ~Expect(Tail(v), "(") THEN FFail ELSE
       LET r == PExprF(Tail(Tail(v))) IN
       IF ~r.ok THEN FFail ELSE
       LET u == OptKw(r.rest, "unit")
           d == OptKw(u.rest, "description")
       IN IF Expect(d.rest, ")") THEN [ok |-> TRUE, name |-> s[1], e |-> r.ast, unit |-> u.val, desc |-> d.val, rest |-> Tail(d.rest)]
          ELSE FFail
  ELSE LET r == PExprF(v) IN
       IF ~r.ok THEN FFail ELSE [ok |-> TRUE, name |-> s[1], e |-> r.ast, unit |-> "", desc |-> "", rest |-> r.rest]

\* param ("," param)* ")"  -> [ok, entries, rest]
RECURSIVE PParams(_,_)
PParams(s, acc) ==
  LET p == PParam(s) IN
  IF ~p.ok THEN FFail ELSE
  LET acc2 == Append(acc, [name |-> p.name, e |-> p.e, unit |-> p.unit, desc |-> p.desc]) IN
  IF Expect(p.rest, ")") THEN [ok |-> TRUE, entries |-> acc2, rest |-> Tail(p.rest)]
  ELSE IF Expect(p.rest, ",") THEN PParams(Tail(p.rest), acc2)
  ELSE FFail

\* after the keyword:  "(" (STRING ",")* param ("," param)* ")"
PDecl(s) ==
  IF ~Expect(s, "(") THEN FFail ELSE
  LET c == Comps(Tail(s), <<>>)
      p == PParams(c[2], <<>>)
  IN IF ~p.ok THEN FFail ELSE [ok |-> TRUE, comps |-> c[1], entries |-> p.entries, rest |-> p.rest]

\* after the keyword:  "(" STRING ("," STRING)* ")"
RECURSIVE HeaderNames(_,_)
HeaderNames(s, acc) ==
  IF s = <<>> \/ Head(s) \notin StrToks THEN FFail ELSE
  LET acc2 == Append(acc, Head(s)) IN
  IF Expect(Tail(s), ")") THEN [ok |-> TRUE, comps |-> acc2, rest |-> Tail(Tail(s))]
  ELSE IF Expect(Tail(s), ",") THEN HeaderNames(Tail(Tail(s)), acc2)
  ELSE FFail
PHeader(s) == IF ~Expect(s, "(") THEN FFail ELSE HeaderNames(Tail(s), <<>>)

RECURSIVE SkipComments(_)
SkipComments(s) == IF s # <<>> /\ Head(s) \in CommentToks THEN SkipComments(Tail(s)) ELSE s

\* assignment+ (each optionally followed by comments: its annotation)  -> [ok, entries, rest]
StartsAssignment(s) == Len(s) >= 2 /\ IsName(s[1]) /\ s[1] \notin BlockKw \cup HeadKw /\ s[2] = "="
RECURSIVE PAssigns(_,_)
PAssigns(s, acc) ==
  IF ~StartsAssignment(s) THEN (IF acc = <<>> THEN FFail ELSE [ok |-> TRUE, entries |-> acc, rest |-> s]) ELSE
  LET r == PExprF(SubSeq(s, 3, Len(s))) IN
  IF ~r.ok THEN FFail ELSE
  LET annot == IF r.rest # <<>> /\ Head(r.rest) \in CommentToks THEN Head(r.rest) ELSE ""
  IN PAssigns(SkipComments(r.rest), Append(acc, [name |-> s[1], e |-> r.ast, unit |-> annot, desc |-> ""]))

\* one block of Pipeline.tla per component named in the header
BlocksFor(k, comps, entries) ==
  LET cs == IF comps = <<>> THEN <<"">> ELSE comps
  IN [i \in 1..Len(cs) |-> [k |-> k, comp |-> cs[i], entries |-> entries]]

\* ode: items, with the scope of the last headed expressions block
NoScope == <<>>
RECURSIVE Items(_,_,_)
Items(s, bs, scope) ==
  IF s = <<>> THEN [ok |-> TRUE, blocks |-> bs] ELSE
  LET h == Head(s) IN
  IF h \in CommentToks THEN Items(Tail(s), bs, scope)                        \* a comment line: no meaning, scope kept
  ELSE IF h \in BlockKw THEN
       LET d == PDecl(Tail(s)) IN
       IF ~d.ok THEN FFail ELSE Items(d.rest, bs \o BlocksFor(h, d.comps, d.entries), NoScope)
  ELSE IF h \in HeadKw THEN
       LET hd == PHeader(Tail(s)) IN
       IF ~hd.ok THEN FFail ELSE
       LET a == PAssigns(SkipComments(hd.rest), <<>>) IN
       IF ~a.ok THEN FFail ELSE Items(a.rest, bs \o BlocksFor("expressions", hd.comps, a.entries), hd.comps)
  ELSE LET a == PAssigns(s, <<>>) IN
       IF ~a.ok THEN FFail ELSE Items(a.rest, bs \o BlocksFor("expressions", scope, a.entries), scope)

PFile(s) == Items(Significant(s), <<>>, NoScope)

\* the model a token string denotes (unit / description annotations dropped: they carry no numerical meaning)
CoreEntries(es) == [i \in 1..Len(es) |-> [name |-> es[i].name, e |-> es[i].e]]
CoreBlocks(bs) == [i \in 1..Len(bs) |-> [k |-> bs[i].k, comp |-> bs[i].comp, entries |-> CoreEntries(bs[i].entries)]]
ModelOfFile(s) == LET r == PFile(s) IN IF r.ok THEN [ok |-> TRUE, M |-> [blocks |-> CoreBlocks(r.blocks)]] ELSE FFail

\* where every comment of s stands at a place the language gives it
RECURSIVE CommentsWellPlaced(_)
CommentsWellPlaced(s) == PFile(s).ok = PFile(StripComments(s)).ok
=============================================================================
