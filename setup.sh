#!/bin/sh
# offline setup: parse every specification module, byte-compile the harness
set -e
cd "$(dirname "$0")"
for m in spec/*.tla; do
  b=$(basename "$m" .tla)
  (cd spec && java -cp /opt/veriftools/tla/tla2tools.jar:/opt/veriftools/tla/CommunityModules-deps.jar tla2sany.SANY "$b.tla" > /tmp/sany.$$ 2>&1) || { cat /tmp/sany.$$; rm -f /tmp/sany.$$; echo "SANY failed on $b"; exit 1; }
  if grep -q -e "Semantic errors" -e "Parse Error" -e "Fatal errors" /tmp/sany.$$; then cat /tmp/sany.$$; rm -f /tmp/sany.$$; echo "SANY errors in $b"; exit 1; fi
done
rm -f /tmp/sany.$$
/venv/bin/python -m compileall -q harness
/venv/bin/python -c "import sys; sys.path.insert(0, '/verif'); from harness import gx; print('gotranx', gx.gotranx.__version__, 'from', gx.gotranx.__file__)"
echo setup ok
